"""C17 bounded stand-in: exactly one subcommand is selected and only its settings survive.

Contract (end to end, on parse_args / parse_string / parse_object / parse_env of real parsers built from /repo):
for a subcommand tree T and an input scenario S the parse result (cfg keys and metadata stripped) equals the result of a
small reference model written from the property statement, and the accept/reject decision agrees:

  selection at every level = the name given on the command line, else the name given by the highest-priority
  config/environment source that names one, else the first *declared* subcommand for which some source gives
  settings; none and required -> failure; none and optional -> subcommand key None and no section;
  result[name] = the chosen sub-parser's complete settings: its defaults, overridden by default config files, environment,
  the parsed config/object, and the command line in textual order; recursively; no section of any other subcommand.

A scenario is a small set of (source, atom) pairs.  Atoms: "set the first option of the parser at path P" and "name
child C at path P".  Sources: D root default config file, Dc:P the default config file of the sub-parser at P, E
environment, B the parsed string/object, C --cfg=<json> before the first subcommand name, Cs:P --cfg=<json> given to the
sub-parser at P, A the command line itself (subcommand names and --opt=value).  Every value encodes its source, so the
model also decides *which* source must win.  All scenarios with at most N atoms are enumerated (N by tree, see bound);
every depth-1 scenario is additionally replayed ("lifted") at inner positions of deeper trees.

Deliberately *not* asserted (statement silent / ambiguous; see the report):
  * whether settings given only through environment variables count as "settings were given" when nothing names a
    subcommand: both readings are accepted;
  * a leaf or a name given by two default config files of different levels (scenario filtered out);
  * empty sections ({}), aliases, the type of the exception on failure (any exception counts as "parsing fails";
    non-ArgumentError failures are counted in the notes).
"""
import itertools
import json
import os
import sys
import tempfile
import warnings

from bounded.common import Harness, outcome

from jsonargparse import ArgumentParser, Namespace

DEST = "subcommand"
SRC_BASE = {"D": 1, "Dc": 2, "E": 3, "B": 4, "C": 5, "Cs": 6, "A": 7}
UNKNOWN = "zzz"


# --------------------------------------------------------------------------------------------- trees
class Node:
    def __init__(self, name, opt, children=()):
        self.name, self.opt, self.children = name, opt, list(children)
        self.opt2 = opt + "2"
        self.path, self.idx = (), 0

    def child(self, name):
        for c in self.children:
            if c.name == name:
                return c
        return None


class Tree:
    def __init__(self, tid, root):
        self.tid, self.root = tid, root
        self.nodes = []

        def walk(n, path):
            n.path, n.idx = path, len(self.nodes)
            self.nodes.append(n)
            for c in n.children:
                walk(c, path + (c.name,))

        walk(root, ())
        self.depth = max(len(n.path) for n in self.nodes)
        self.by_path = {n.path: n for n in self.nodes}

    def spec(self):
        def s(n):
            return n.name + "[" + n.opt + "]" + ("(" + ",".join(s(c) for c in n.children) + ")" if n.children else "")

        return s(self.root)


def N(name, opt, *children):
    return Node(name, opt, children)


def trees():
    t = {}
    t["k1"] = Tree("k1", N("", "g", N("a", "o")))
    t["k2"] = Tree("k2", N("", "g", N("a", "o"), N("b", "o")))
    t["k3"] = Tree("k3", N("", "g", N("a", "o"), N("b", "o"), N("c", "o")))
    t["k4"] = Tree("k4", N("", "g", N("a", "o"), N("b", "o"), N("c", "o"), N("d", "o")))
    t["d2"] = Tree("d2", N("", "g", N("a", "o", N("x", "q"), N("y", "q")), N("b", "o")))
    t["d2s"] = Tree("d2s", N("", "g", N("a", "o", N("x", "q"), N("y", "q")), N("b", "o", N("x", "q"), N("y", "q"))))
    # repeated names along a path (a.a.a), as in test_subsubcommand_default_config_repeated_keys
    t["rep"] = Tree("rep", N("", "g", N("a", "o", N("a", "a"), N("b", "a")), N("b", "o")))
    t["d3"] = Tree("d3", N("", "g", N("a", "o", N("x", "q", N("m", "r"), N("n", "r")), N("y", "q")), N("b", "o")))
    return t


def default_of(node, second=False):
    return node.idx * 10 + (1 if second else 0) + 10


def required_at(mode, level):
    return mode[min(level, len(mode) - 1)] == "R"


# --------------------------------------------------------------------------------------------- scenarios
def src_kind(src):
    return src.split(":")[0]


def src_path(src):
    if ":" not in src:
        return ()
    p = src.split(":")[1]
    return tuple(p.split(".")) if p else ()


def atom_str(tree, atom):
    if atom[0] == "s":
        node = tree.by_path[atom[1]]
        return ".".join(atom[1] + (node.opt,))
    return ".".join(atom[1]) + ">" + atom[2]


def sig(tree, sc):
    parts = []
    for src in sorted({s for s, _ in sc}, key=lambda s: (SRC_BASE[src_kind(s)], s)):
        label = src.replace(":", ".")
        parts.append(label + "(" + ",".join(atom_str(tree, a) for s, a in sc if s == src) + ")")
    return "".join(parts) or "-"


def value(tree, src, atom):
    return SRC_BASE[src_kind(src)] * 100 + tree.by_path[atom[1]].idx


def build_dict(tree, src, atoms, rel):
    """Nested dict, relative to path `rel`, holding the atoms of one source."""
    out = {}
    for atom in atoms:
        path = atom[1][len(rel):]
        d = out
        for p in path:
            d = d.setdefault(p, {})
        if atom[0] == "s":
            d[tree.by_path[atom[1]].opt] = value(tree, src, atom)
        else:
            d[DEST] = atom[2]
    return out


def atoms_of(tree, below=(), unknown=False):
    out = []
    for n in tree.nodes:
        if n.path[: len(below)] != below:
            continue
        out.append(("s", n.path))
        for c in n.children:
            out.append(("n", n.path, c.name))
        if unknown and n.children:
            out.append(("n", n.path, UNKNOWN))
    return out


def universe(tree, unknown=True):
    u = []
    for src in ("D", "E", "B", "C", "A"):
        for a in atoms_of(tree, unknown=unknown and src in ("B", "C", "A")):
            u.append((src, a))
    for n in tree.nodes[1:]:
        for kind in ("Dc", "Cs"):
            for a in atoms_of(tree, below=n.path):
                u.append((kind + ":" + ".".join(n.path), a))
    return u


def chain_of(sc):
    """argv chain: {path: child name} from the A name atoms, or None when they do not form a chain from the root."""
    names = sorted((a for s, a in sc if s == "A" and a[0] == "n"), key=lambda a: len(a[1]))
    chain, cur = {}, ()
    for a in names:
        if a[1] != cur:
            return None
        chain[cur] = a[2]
        cur = cur + (a[2],)
    return chain


def on_chain(chain, path):
    cur = ()
    for p in path:
        if chain.get(cur) != p:
            return False
        cur = cur + (p,)
    return True


def valid(tree, sc):
    srcs = {s for s, _ in sc}
    kinds = {src_kind(s) for s in srcs}
    if "B" in kinds and kinds & {"A", "C", "Cs"}:
        return False
    seen = set()
    for s, a in sc:
        if a[0] == "n":
            if (s, a[1]) in seen:
                return False
            seen.add((s, a[1]))
    chain = chain_of(sc)
    if chain is None:
        return False
    for s, a in sc:
        k = src_kind(s)
        if k in ("Dc", "Cs") and a[1][: len(src_path(s))] != src_path(s):
            return False
        if k == "Cs" and not (on_chain(chain, src_path(s)) and src_path(s) in tree.by_path):
            return False
        if k == "A" and a[0] == "s" and not on_chain(chain, a[1]):
            return False
    # the same leaf / the same name slot given by two default config files: no documented order -> not asserted
    slots = [(a[0], a[1]) for s, a in sc if src_kind(s) in ("D", "Dc")]
    if len(slots) != len(set(slots)):
        return False
    return True


def channels(sc):
    kinds = {src_kind(s) for s, _ in sc}
    if "B" in kinds:
        return ["string", "object"]
    if kinds & {"A", "C", "Cs"}:
        return ["args"]
    return ["args", "object"] + (["env"] if "E" in kinds else [])


# --------------------------------------------------------------------------------------------- reference model
class Reject(Exception):
    pass


def layers_of(tree, sc):
    """Ordered (low -> high priority) list of (kind, origin path, dict relative to origin)."""
    by_src = {}
    for s, a in sc:
        by_src.setdefault(s, []).append(a)
    chain = chain_of(sc) or {}
    out = []
    for s in sorted(x for x in by_src if src_kind(x) in ("D", "Dc")):
        out.append((src_kind(s), src_path(s), build_dict(tree, s, by_src[s], src_path(s))))
    if "E" in by_src:
        out.append(("E", (), build_dict(tree, "E", by_src["E"], ())))
    if "B" in by_src:
        out.append(("B", (), build_dict(tree, "B", by_src["B"], ())))
    # command line in textual order: at each level --cfg first, then the option, then the subcommand name
    cur = ()
    while True:
        s = "C" if cur == () else "Cs:" + ".".join(cur)
        if s in by_src:
            out.append((src_kind(s), cur, build_dict(tree, s, by_src[s], cur)))
        if ("s", cur) in by_src.get("A", []):
            out.append(("A", cur, build_dict(tree, "A", [("s", cur)], cur)))
        nxt = chain.get(cur)
        if nxt is None or cur + (nxt,) not in tree.by_path:
            break
        cur = cur + (nxt,)
    return out, chain


def descend(d, path):
    for p in path:
        d = d.get(p) if isinstance(d, dict) else None
        if d is None:
            return None
    return d if isinstance(d, dict) else None


def model(tree, sc, mode, defaults, env_counts):
    layers, chain = layers_of(tree, sc)

    def rec(node):
        path = node.path
        here = []
        for kind, origin, d in layers:
            if path[: len(origin)] != origin:
                continue
            sub = descend(d, path[len(origin):])
            if sub:
                here.append((kind, sub))
        res = {}
        if defaults:
            res[node.opt] = default_of(node)
            res[node.opt2] = default_of(node, True)
        for kind, sub in here:
            if node.opt in sub:
                res[node.opt] = sub[node.opt]
        if not node.children:
            return res
        chosen = chain.get(path)
        if chosen is None:
            for kind, sub in reversed(here):
                if sub.get(DEST) is not None:
                    chosen = sub[DEST]
                    break
        if chosen is None:
            for c in node.children:
                if any(isinstance(sub.get(c.name), dict) and sub[c.name] for kind, sub in here if env_counts or kind != "E"):
                    chosen = c.name
                    break
        if chosen is None:
            if required_at(mode, len(path)):
                raise Reject("required subcommand at '%s' cannot be determined" % ".".join(path))
            if defaults:
                res[DEST] = None
            return res
        child = node.child(chosen)
        if child is None:
            raise Reject("unknown subcommand %r" % chosen)
        res[DEST] = chosen
        sub = rec(child)
        if sub or defaults:
            res[chosen] = sub
        return res

    try:
        return ("ok", rec(tree.root))
    except Reject as ex:
        return ("reject", str(ex))


# --------------------------------------------------------------------------------------------- real parsers
def build_parser(tree, mode, dcfdir):
    def files(node):
        if dcfdir is None:
            return None
        return [os.path.join(dcfdir, "dcf_" + "_".join(node.path) + ".json")]

    def mk(node):
        kw = {"exit_on_error": False, "default_config_files": files(node)}
        if node.path == ():
            kw.update(prog="app", env_prefix="APP")
        p = ArgumentParser(**kw)
        p.add_argument("--cfg", action="config")
        p.add_argument("--" + node.opt, type=int, default=default_of(node))
        p.add_argument("--" + node.opt2, type=int, default=default_of(node, True))
        return p

    def add_subs(node, parser):
        if not node.children:
            return
        sc = parser.add_subcommands(required=required_at(mode, len(node.path)))
        made = []
        for c in node.children:
            sp = mk(c)
            sc.add_subcommand(c.name, sp)
            made.append((c, sp))
        for c, sp in made:
            add_subs(c, sp)

    root = mk(tree.root)
    add_subs(tree.root, root)
    return root


def render_env(tree, sc):
    env = {}
    for s, a in sc:
        if s != "E":
            continue
        name = "APP_" + "".join(p.upper() + "__" for p in a[1])
        if a[0] == "s":
            env[name + tree.by_path[a[1]].opt.upper()] = str(value(tree, s, a))
        else:
            env[name + DEST.upper()] = a[2]
    return env


def render_argv(tree, sc, cfg_first=True):
    by_src = {}
    for s, a in sc:
        by_src.setdefault(s, []).append(a)
    chain = chain_of(sc) or {}
    argv, cur = [], ()
    while True:
        s = "C" if cur == () else "Cs:" + ".".join(cur)
        items = []
        if s in by_src:
            items.append("--cfg=" + json.dumps(build_dict(tree, s, by_src[s], cur)))
        if ("s", cur) in by_src.get("A", []):
            items.append("--%s=%d" % (tree.by_path[cur].opt, value(tree, "A", ("s", cur))))
        argv += items if cfg_first else items[::-1]
        nxt = chain.get(cur)
        if nxt is None:
            break
        argv.append(nxt)
        if cur + (nxt,) not in tree.by_path:
            break
        cur = cur + (nxt,)
    return argv


def strip(tree, d):
    """Drop the config-argument keys (cfg) at every level of a result dict; leave everything else as it is."""

    def rec(node, d):
        if not isinstance(d, dict):
            return d
        out = {}
        for k, v in d.items():
            if k == "cfg":
                continue
            c = node.child(k) if node is not None else None
            out[k] = rec(c, v) if isinstance(v, dict) else v
        return out

    return rec(tree.root, d)


def drop_empty(d):
    if not isinstance(d, dict):
        return d
    out = {}
    for k, v in d.items():
        v = drop_empty(v)
        if isinstance(v, dict) and not v:
            continue
        out[k] = v
    return out


def diff(tree, want, got):
    """First difference between the model result and the real result, as (class, detail)."""

    def rec(node, w, g, path):
        names = [c.name for c in node.children]
        p = ".".join(path)
        for n in names:
            if n in g and g.get(DEST) != n:
                return "extra-section", (p + "." if p else "") + n
        if node.children and w.get(DEST) != g.get(DEST):
            return "wrong-choice", "%s>%s!=%s" % (p, g.get(DEST), w.get(DEST))
        for o in (node.opt, node.opt2):
            if o in w and o not in g:
                return "incomplete", (p + "." if p else "") + o
            if w.get(o) != g.get(o):
                return "wrong-value", "%s%s=%s!=%s" % (p + "." if p else "", o, g.get(o), w.get(o))
        extra = sorted(set(g) - set(w))
        if extra:
            return "extra-key", (p + "." if p else "") + extra[0]
        ch = w.get(DEST)
        if ch is not None and node.child(ch) is not None:
            wc, gc = w.get(ch, {}), g.get(ch, {})
            if not isinstance(gc, dict):
                return "no-section", (p + "." if p else "") + ch
            return rec(node.child(ch), wc, gc, path + (ch,))
        missing = sorted(set(w) - set(g))
        if missing:
            return "missing-key", (p + "." if p else "") + missing[0]
        return None

    return rec(tree.root, want, got, ())


class Runner:
    """Runs scenarios on real parsers (one per worker process / chunk) and judges them against the model."""

    def __init__(self, tmp):
        self.tmp = tmp
        self.parsers = {}
        self.n_dirs = 0

    def parser(self, tree, mode, with_dcf, fresh=False):
        key = (tree.tid, mode, with_dcf)
        if fresh or key not in self.parsers:
            d = None
            if with_dcf:
                d = os.path.join(self.tmp, "p%d" % self.n_dirs)
                self.n_dirs += 1
                os.mkdir(d)
                for n in tree.nodes:
                    with open(os.path.join(d, "dcf_" + "_".join(n.path) + ".json"), "w") as f:
                        f.write("")
            p = (build_parser(tree, mode, d), d)
            if fresh:
                return p
            self.parsers[key] = p
        return self.parsers[key]

    def call(self, tree, sc, mode, channel, defaults, cfg_first, fresh=False):
        kinds = {src_kind(s) for s, _ in sc}
        with_dcf = bool(kinds & {"D", "Dc"})
        parser, d = self.parser(tree, mode, with_dcf, fresh)
        by_src = {}
        for s, a in sc:
            by_src.setdefault(s, []).append(a)
        if with_dcf:
            for n in tree.nodes:
                s = "D" if n.path == () else "Dc:" + ".".join(n.path)
                with open(os.path.join(d, "dcf_" + "_".join(n.path) + ".json"), "w") as f:
                    f.write(json.dumps(build_dict(tree, s, by_src[s], n.path)) if s in by_src else "")
        env = render_env(tree, sc)
        use_env = True if "E" in kinds else None
        kw = {"with_meta": False, "defaults": defaults}
        case = {"tree": tree.spec(), "required_by_level": mode, "channel": channel, "defaults": defaults, "env": env,
                "default_config_files": {("root" if s == "D" else s[3:]): build_dict(tree, s, by_src[s], src_path(s))
                                         for s in by_src if src_kind(s) in ("D", "Dc")}}
        saved = dict(os.environ)
        try:
            for k in [k for k in os.environ if k.startswith("APP_")]:
                del os.environ[k]
            os.environ.update(env)
            if channel == "args":
                argv = render_argv(tree, sc, cfg_first)
                case["call"] = "parse_args(%r, env=%r, defaults=%r)" % (argv, use_env, defaults)
                res = outcome(parser.parse_args, argv, env=use_env, **kw)
            elif channel == "string":
                text = json.dumps(build_dict(tree, "B", by_src.get("B", []), ()))
                case["call"] = "parse_string(%r, env=%r, defaults=%r)" % (text, use_env, defaults)
                res = outcome(parser.parse_string, text, env=use_env, **kw)
            elif channel == "object":
                obj = build_dict(tree, "B", by_src.get("B", []), ())
                case["call"] = "parse_object(%r, env=%r, defaults=%r)" % (obj, use_env, defaults)
                res = outcome(parser.parse_object, obj, env=use_env, **kw)
            else:
                case["call"] = "parse_env(defaults=%r)" % (defaults,)
                res = outcome(parser.parse_env, **kw)
        finally:
            os.environ.clear()
            os.environ.update(saved)
        if res[0] == "ok":
            val = res[1]
            res = ("ok", strip(tree, val.as_dict()) if isinstance(val, Namespace) else val)
        return res, case

    def judge(self, tree, sc, mode, defaults, res):
        """-> (ok, class, detail, expected); either reading of env-only settings is accepted."""
        verdicts = []
        for env_counts in (False, True):
            exp = model(tree, sc, mode, defaults, env_counts)
            if exp[0] == "reject":
                if res[0] != "ok":
                    return True, "", "", exp
                verdicts.append(("accepted", exp[1].split(" at ")[0].split(" '")[0].replace(" ", "-")[:40], exp))
            elif res[0] != "ok":
                verdicts.append(("rejected", str(res[1]), exp))
            else:
                got = res[1]
                if not isinstance(got, dict):
                    verdicts.append(("not-a-namespace", type(got).__name__, exp))
                    continue
                w, g = exp[1], got
                if not defaults:
                    w, g = drop_empty(w), drop_empty(g)
                df = diff(tree, w, g)
                if df is None:
                    return True, "", "", exp
                verdicts.append((df[0], df[1], exp))
        return (False,) + verdicts[0]

    def violates(self, tree, sc, mode, channel, defaults, cfg_first, cls):
        """Same class of violation on a freshly built parser?  -> (bool, res, case, detail, exp)"""
        res, case = self.call(tree, sc, mode, channel, defaults, cfg_first, fresh=True)
        ok, c, detail, exp = self.judge(tree, sc, mode, defaults, res)
        return (not ok and (cls is None or c == cls)), res, case, detail, exp, c

    def run(self, tree, sc, mode, defaults=True, cfg_first=True):
        """One scenario on every channel it applies to -> list of result records (one contract evaluation each)."""
        out = []
        s = sig(tree, sc)
        for channel in channels(sc):
            res, case = self.call(tree, sc, mode, channel, defaults, cfg_first)
            ok, cls, detail, exp = self.judge(tree, sc, mode, defaults, res)
            rec = {"ok": ok, "orig": "%s:%s:%s%s%s:%s" % (tree.tid, mode, channel, "" if defaults else ":d0", "" if cfg_first else ":oc", s),
                   "res": res[0], "fail": res[1] if res[0] == "exc" else ("exit" if res[0] == "exit" else None),
                   "ambiguous": model(tree, sc, mode, defaults, False) != model(tree, sc, mode, defaults, True),
                   "nontrivial": bool(sc), "stale": False}
            if not ok:
                # confirm on a freshly built parser so that the reproducer is stand-alone (history effects belong to C09)
                bad, res, case, detail, exp, cls = self.violates(tree, sc, mode, channel, defaults, cfg_first, None)
                if not bad:
                    rec.update(ok=True, stale=True)
            if not rec["ok"]:
                # shrink to a minimal scenario with the same class of violation: the canonical key names the minimal one
                cur = tuple(sc)
                changed = True
                while changed:
                    changed = False
                    for i in range(len(cur)):
                        cand = cur[:i] + cur[i + 1:]
                        if not valid(tree, cand) or channel not in channels(cand):
                            continue
                        if not defaults and {src_kind(x) for x, _ in cand} & {"D", "Dc"}:
                            continue
                        bad, r2, c2, d2, e2, _ = self.violates(tree, cand, mode, channel, defaults, cfg_first, cls)
                        if bad:
                            cur, res, case, detail, exp, changed = cand, r2, c2, d2, e2, True
                            break
                depth = tree.depth
                modes = [m for m in dict.fromkeys(["R" * depth, "O" * depth, mode])
                         if m == mode or self.violates(tree, cur, m, channel, defaults, cfg_first, cls)[0]]
                chans = [c for c in channels(cur)
                         if c == channel or self.violates(tree, cur, mode, c, defaults, cfg_first, cls)[0]]
                mode_label = "*" if {"R" * depth, "O" * depth} <= set(modes) else mode
                key = "c17:%s:%s:%s:%s%s%s:%s:%s" % (cls, tree.tid, mode_label, "+".join(chans), "" if defaults else ":d0",
                                                 "" if cfg_first else ":oc", sig(tree, cur), detail)
                case.update(expected=exp[1], got=res[1] if res[0] == "ok" else list(res), found_from=rec["orig"], minimal_scenario=sig(tree, cur))
                rec.update(key=key, what="result differs from the reference selection model: %s %s" % (cls, detail), case=case)
            elif len(sc) >= 3 and res[0] == "ok":
                rec["sample"] = {"scenario": rec["orig"], "call": case["call"], "env": case["env"], "dcf": case["default_config_files"], "result": res[1]}
            out.append(rec)
        return out


_TREES = None


def work(chunk):
    """Pool worker: run a chunk of tasks (tree id, scenario, mode, defaults, cfg_first)."""
    global _TREES
    if _TREES is None:
        _TREES = trees()
    out = []
    saved_cwd = os.getcwd()
    with tempfile.TemporaryDirectory() as tmp, warnings.catch_warnings():
        warnings.simplefilter("ignore")
        r = Runner(tmp)
        for tid, sc, mode, defaults, cfg_first in chunk:
            out.extend(r.run(_TREES[tid], sc, mode, defaults, cfg_first))
    os.chdir(saved_cwd)
    return out


# --------------------------------------------------------------------------------------------- enumeration
def combos(tree, max_atoms, unknown=True, keep=None):
    u = universe(tree, unknown)
    if keep is not None:
        u = [x for x in u if keep(x)]
    yield ()
    for n in range(1, max_atoms + 1):
        for sc in itertools.combinations(u, n):
            if valid(tree, sc):
                yield sc


def lift(tree, sc1, target, how, own_files):
    """Replay a scenario of the depth-1 tree k2 (root[a,b]) at the inner node `target` of `tree`, whose first two children
    play a and b.  `how` selects the outer chain: 'A' names it on the command line, 'B' names it in the config / --cfg,
    'I' leaves it implicit (it is then determined by the settings themselves)."""
    node = tree.by_path[target]
    ren = {"a": node.children[0].name, "b": node.children[1].name}
    out = []
    kinds = {src_kind(s) for s, _ in sc1}
    for s, a in sc1:
        k = src_kind(s)
        path = target + tuple(ren.get(p, p) for p in a[1])
        atom = ("s", path) if a[0] == "s" else ("n", path, ren.get(a[2], a[2]))
        if k == "C":
            s2 = "Cs:" + ".".join(target)
        elif k in ("Dc", "Cs"):
            s2 = k + ":" + ".".join(target + tuple(ren.get(p, p) for p in src_path(s)))
        elif k == "D" and own_files:
            s2 = "Dc:" + ".".join(target)
        else:
            s2 = s
        out.append((s2, atom))
    needs_argv_chain = bool(kinds & {"A", "C", "Cs"})
    if needs_argv_chain or how == "A":
        if "B" in kinds:
            return None
        src = "A"
    elif how == "B":
        src = "B" if "B" in kinds or not kinds & {"A", "C", "Cs"} else "C"
    else:
        src = None
    if src:
        cur = ()
        for p in target:
            out.append((src, ("n", cur, p)))
            cur = cur + (p,)
    out = tuple(dict.fromkeys(out))
    return out if valid(tree, out) else None


def mode_sensitive(tree, sc, defaults=True):
    depth = tree.depth
    base = None
    for m in itertools.product("RO", repeat=depth):
        for env_counts in (False, True):
            r = model(tree, sc, "".join(m), defaults, env_counts)
            if base is None:
                base = r
            elif r != base:
                return True
    return False


def tasks_for(thorough, rng):
    """The deterministic task list: (tree id, scenario, required-mode, defaults, cfg_first)."""
    T = trees()
    tasks = []
    counter = [0]

    def add(tid, sc, modes, defaults=True, cfg_first=True, all_modes=False):
        """Run in every mode when the model's answer depends on required/optional, else in one mode (round robin)."""
        if all_modes or mode_sensitive(T[tid], sc, defaults):
            chosen = modes
        else:
            counter[0] += 1
            chosen = [modes[counter[0] % len(modes)]]
        for m in chosen:
            tasks.append((tid, tuple(sc), m, defaults, cfg_first))

    # ---- (1) depth 1, two subcommands: all scenarios with <= 3 atoms (4 thorough)
    n1 = 4 if thorough else 3
    k2 = list(combos(T["k2"], n1))
    for sc in k2:
        add("k2", sc, ["R", "O"], all_modes=len(sc) <= 2)
    for sc in k2:
        kinds = {src_kind(s) for s, _ in sc}
        if len(sc) <= 3 and not kinds & {"D", "Dc"}:
            add("k2", sc, ["R", "O"], defaults=False)
        if len(sc) <= 3 and kinds & {"C", "Cs"} and any(s == "A" and a[0] == "s" for s, a in sc):
            add("k2", sc, ["R", "O"], cfg_first=False)
    # ---- (2) one, three (and four) subcommands per level
    for tid, n in (("k1", 3), ("k3", 2)) + ((("k4", 2), ("k3", 3)) if thorough else ()):
        for sc in combos(T[tid], n):
            add(tid, sc, ["R", "O"])
    # three subcommands: settings for several subcommands from one source + a name from another (3-4 atoms)
    sets = [("s", (c,)) for c in "abc"]
    for src1 in ("D", "E", "B", "C"):
        for n_set in (2, 3):
            for chosen_sets in itertools.combinations(sets, n_set):
                for src2 in ("D", "E", "B", "C", "A"):
                    for name in "abc":
                        sc = tuple((src1, a) for a in chosen_sets) + ((src2, ("n", (), name)),)
                        if valid(T["k3"], sc):
                            add("k3", sc, ["R", "O"])
                            if src1 != "D" and src2 != "D":
                                add("k3", sc, ["R", "O"], defaults=False)
    # ---- (3) depth 2: all scenarios with <= 2 atoms (3 thorough)
    n2 = 3 if thorough else 2
    for tid in ("d2", "rep") + (("d2s",) if thorough else ()):
        for sc in combos(T[tid], n2, unknown=(tid == "d2")):
            add(tid, sc, ["RR", "OO", "RO", "OR"])
            kinds = {src_kind(s) for s, _ in sc}
            if tid == "d2" and sc and not kinds & {"D", "Dc"}:
                add(tid, sc, ["RO", "OR", "RR", "OO"], defaults=False)
    # ---- (4) every depth-1 scenario replayed at inner positions of deeper trees
    k2_small = [sc for sc in k2 if 1 <= len(sc) <= 3 and not any(a[0] == "n" and a[2] == UNKNOWN for s, a in sc)]
    targets = [("d2", ("a",)), ("d2s", ("b",)), ("rep", ("a",)), ("d3", ("a", "x"))]
    if thorough:
        targets.append(("d3", ("a",)))
    i = 0
    for tid, target in targets:
        for sc1 in k2_small:
            for how in ("A", "B", "I"):
                for own in (False, True):
                    if own and not any(s == "D" for s, _ in sc1):
                        continue
                    i += 1
                    if not thorough and len(sc1) == 3 and i % 3 != 0:
                        continue  # quick: every third 3-atom lift, deterministic
                    sc = lift(T[tid], sc1, target, how, own)
                    if sc is None:
                        continue
                    depth = T[tid].depth
                    add(tid, sc, ["R" * depth, "O" * depth, ("RO" * depth)[:depth], ("OR" * depth)[:depth]])
    # ---- (5) thorough: seeded random larger scenarios on the deepest / widest trees
    if thorough:
        for tid in ("d3", "d2s", "k4"):
            u = universe(T[tid], unknown=False)
            done = 0
            while done < 6000:
                sc = tuple(sorted(set(rng.sample(u, rng.randint(3, 6)))))
                if not valid(T[tid], sc):
                    continue
                done += 1
                mode = "".join(rng.choice("RO") for _ in range(T[tid].depth))
                d0 = rng.random() < 0.2 and not {src_kind(s) for s, _ in sc} & {"D", "Dc"}
                tasks.append((tid, sc, mode, not d0, True))
    return tasks, n1, n2


def main():
    h = Harness("b17_subcommands", rule="every scenario = set of <= N (source, atom) pairs over a subcommand tree (atoms: set the option of the parser at "
                "path P / name child C at path P; sources: root and sub-parser default config files, environment, parsed string/object, "
                "--cfg at root or sub level, command line), run through parse_args / parse_string / parse_object / parse_env on parsers "
                "with required and optional subcommands and compared with a reference selection+precedence model; non-trivial = distinct "
                "(tree, required-mode, channel, defaults flag, scenario) with a non-empty scenario; violations are shrunk to a minimal "
                "scenario, which is what the canonical key names")
    import multiprocessing

    tasks, n1, n2 = tasks_for(h.thorough, h.rng)
    if h.only:
        # replay: --only <substring of 'tree:mode:channel...:scenario'>, matched against the scenario part
        tasks = [t for t in tasks if any(p in "%s:%s:x:%s" % (t[0], t[2], sig(trees()[t[0]], t[1])) for p in [h.only.split(":")[-1]])]
    size = 200
    chunks = [tasks[i:i + size] for i in range(0, len(tasks), size)]
    workers = max(1, min(16, os.cpu_count() or 1))
    ctx = multiprocessing.get_context("fork")
    with ctx.Pool(workers) as pool:
        results = pool.map(work, chunks, chunksize=1)
    stats = {"accept": 0, "reject": 0, "env-ambiguous": 0, "stale-parser-only": 0}
    fail_types = {}
    for recs in results:
        for rec in recs:
            stats["accept" if rec["res"] == "ok" else "reject"] += 1
            stats["env-ambiguous"] += rec["ambiguous"]
            stats["stale-parser-only"] += rec["stale"]
            if rec["fail"]:
                fail_types[rec["fail"]] = fail_types.get(rec["fail"], 0) + 1
            h.check(rec["ok"], rec.get("key", ""), rec.get("what", ""), rec.get("case"))
            if rec["nontrivial"]:
                h.nontrivial(rec["orig"])
            if "sample" in rec:
                h.sample(rec["sample"], limit=3)
    h.note("tasks: %d in %d chunks on %d worker processes" % (len(tasks), len(chunks), workers))
    h.note("outcomes: %r" % stats)
    h.note("failure types seen (any exception counts as 'parsing fails' for C17; non-ArgumentError ones are C03 material): %r" % fail_types)
    h.note("distinct violation keys: %d (the evidence lists at most 200)" % len(h.viol_keys))
    for i, a in enumerate(h.extra):
        if a == "--dump-keys" and i + 1 < len(h.extra):
            with open(h.extra[i + 1], "w") as f:
                f.write("\n".join(sorted(h.viol_keys)) + "\n")
    h.check(stats["accept"] > 0 and stats["reject"] > 0, "c17:vacuity", "accepted and rejected inputs must both occur", stats)
    sys.exit(h.finish(exhaustive=True, bound=(
        "trees: 1-3 (thorough 4) subcommands at depth 1, depth 2 (incl. equal names in two branches and repeated names a.a.a), depth 3 via lifted "
        "scenarios (thorough: + random); scenarios: all with <= %d atoms on root[a,b], <= %d on depth-2 trees, <= 2-3 on k1/k3, every <=3-atom "
        "depth-1 scenario lifted to inner nodes (quick: every third 3-atom one); required/optional per level; defaults on/off" % (n1, n2))))


if __name__ == "__main__":
    main()
