"""C03 bounded stand-in: every parse failure surfaces as ArgumentError (exit_on_error=False) or usage + error line on stderr
and exit status 2 (exit_on_error=True); status 0 only for --help / --print_config; nothing else escapes; every call terminates.

Contract (evaluated on the five public parse methods of a FRESH parser per call, both exit_on_error modes):

    raise mode:  outcome in { returns a Namespace, raises ArgumentError, SystemExit(0) iff argv asks for help/print_config }
    exit  mode:  outcome in { returns a Namespace, SystemExit(2) with 'usage:' and 'error:' on stderr,
                              SystemExit(0) iff argv asks for help/print_config }
    both:        the call returns within the CPU-time limit (3 s quick / 10 s thorough; an ordinary call needs < 0.3 s, the slowest seen 1.3 s)

The oracle is this table only - it never asks jsonargparse whether an input "should" fail; inputs are enumerated from a
grammar of option names (known / unknown / malformed: dots, empty segments, '+' suffixes, sub-keys of class and dict
arguments) x values (well-formed, broken JSON/YAML, tags, anchors/aliases, import paths of every kind, wrong-typed
class_path/init_args, missing files, directories, NUL, non-UTF-8 files) for 7 parser shapes.

Violation keys:  c03:<kind>:<method>:<Exception>@<module.function of the innermost frame>:<canonical input>
  kind = escape (another exception type), wrongchannel (ArgumentError in exit mode / exit(2) in raise mode),
         badexit (status not in {0,2}, status 0 without request, status 2 without usage+error), timeout, notnamespace.
The canonical input replaces the option's own name by its declared type (e.g. `--<int>.=._`), so that one defect has
one key whatever the option is called and whichever shape it was met in (the shape is in the case).
"""
import calendar
import multiprocessing
import os
import random
import sys
import tempfile
import time
from decimal import Decimal
from typing import Any, Callable, Dict, List, Optional, Tuple, Type, Union

from bounded.common import Harness
from bounded.gen_f import DC, Base, Color, Sub, brief, cp, func, run  # noqa: F401

from jsonargparse import ActionConfigFile, ActionParser, ActionYesNo, ArgumentParser, Namespace
from jsonargparse.typing import Path_fr, PositiveInt

PER_CLASS = 3
LIMIT = 10       # CPU seconds per call, thorough tier
QUICK_LIMIT = 3  # CPU seconds per call, quick tier (an ordinary call takes < 0.3 s of CPU)


# ------------------------------------------------------------------ parser shapes: build(eoe) and the known option names with a type label
def base_parser(eoe, **kw):
    p = ArgumentParser(exit_on_error=eoe, env_prefix="APP", default_env=False, **kw)
    p.add_argument("--cfg", action=ActionConfigFile)
    return p


def s_flat(eoe, **kw):
    p = base_parser(eoe, **kw)
    p.add_argument("--i", type=int, default=1)
    p.add_argument("--f", type=float)
    p.add_argument("--s", type=str)
    p.add_argument("--b", type=bool)
    p.add_argument("--li", type=List[int])
    p.add_argument("--di", type=Dict[str, int])
    p.add_argument("--oi", type=Optional[PositiveInt])
    p.add_argument("--e", type=Color)
    p.add_argument("--p", type=Optional[Path_fr])
    p.add_argument("--any", type=Any)
    p.add_argument("--t", type=Tuple[int, str])
    p.add_argument("--n", type=int, nargs=2)
    p.add_argument("--yn", action=ActionYesNo)
    p.add_argument("--u", type=Union[int, List[str]])
    p.add_argument("--ch", nargs="+", choices=["a", "b"])
    p.add_argument("pos", type=int, nargs="?")
    return p


FLAT = [("cfg", "cfg"), ("i", "int"), ("f", "float"), ("s", "str"), ("b", "bool"), ("li", "List[int]"), ("di", "Dict[str,int]"), ("oi", "Optional[PositiveInt]"),
        ("e", "Enum"), ("p", "Optional[Path_fr]"), ("any", "Any"), ("t", "Tuple[int,str]"), ("n", "int*2"), ("yn", "YesNo"), ("u", "Union[int,List[str]]"), ("ch", "choices+")]


def s_nested(eoe, **kw):
    p = base_parser(eoe, **kw)
    p.add_argument("--g.x", type=int, default=0)
    p.add_argument("--g.h.z", type=float, default=0.5)
    p.add_argument("--d", type=DC)
    p.add_argument("--od", type=Optional[DC], default=None)
    p.add_argument("--ld", type=List[DC], default=[])
    p.add_argument("--dd", type=Dict[str, DC], default={})
    p.add_class_arguments(Sub, "c")
    p.add_function_arguments(func, "fn")
    return p


NESTED = [("cfg", "cfg"), ("g.x", "group.int"), ("g", "group"), ("g.h", "group.group"), ("d", "dataclass"), ("d.x", "dataclass.int"), ("d.inner", "dataclass.dataclass"),
          ("od", "Optional[dataclass]"), ("ld", "List[dataclass]"), ("dd", "Dict[str,dataclass]"), ("c", "classgroup"), ("c.child", "classgroup.Optional[class]"),
          ("c.dc", "classgroup.Optional[dataclass]"), ("fn", "funcgroup"), ("fn.fa", "funcgroup.int")]


def s_subclass(eoe, **kw):
    p = base_parser(eoe, **kw)
    p.add_argument("--m", type=Base)
    p.add_argument("--om", type=Optional[Base], default=None)
    p.add_argument("--lm", type=List[Base], default=[])
    p.add_argument("--dm", type=Dict[str, Base], default={})
    p.add_argument("--cal", type=calendar.Calendar)
    p.add_argument("--ty", type=Type[Base])
    p.add_argument("--cb", type=Callable[[int], int])
    p.add_argument("--cbc", type=Callable[[int], Base])
    p.add_argument("--um", type=Union[int, Base, DC])
    return p


SUBCLASS = [("cfg", "cfg"), ("m", "class"), ("om", "Optional[class]"), ("lm", "List[class]"), ("dm", "Dict[str,class]"), ("cal", "stdlibclass"), ("ty", "Type[class]"),
            ("cb", "Callable[[int],int]"), ("cbc", "Callable[[int],class]"), ("um", "Union[int,class,dataclass]")]


def s_subcommands(eoe, **kw):
    p = base_parser(eoe, **kw)
    p.add_argument("--v", type=int, default=0)
    fit = ArgumentParser(exit_on_error=eoe)
    fit.add_argument("--cfg", action=ActionConfigFile)
    fit.add_argument("--lr", type=float, default=0.1)
    fit.add_argument("--model", type=Optional[Base], default=None)
    fa = ArgumentParser()  # created with the default: must report failures the way the root parser does
    fa.add_argument("--pw", type=int, default=1)
    fb = ArgumentParser(exit_on_error=eoe)
    fb.add_argument("--q", type=DC)
    test = ArgumentParser()  # idem
    test.add_argument("--ckpt", type=str, required=True)
    sc = p.add_subcommands(required=True)
    sc.add_subcommand("fit", fit)
    sc.add_subcommand("test", test)
    sc2 = fit.add_subcommands(required=False)
    sc2.add_subcommand("a", fa)
    sc2.add_subcommand("b", fb)
    return p


SUBCOMMANDS = [("cfg", "cfg"), ("v", "int"), ("subcommand", "subcommand"), ("fit", "subcommand-section"), ("fit.lr", "sub.float"), ("fit.model", "sub.Optional[class]"),
               ("fit.subcommand", "sub.subcommand"), ("fit.a.pw", "sub.sub.int"), ("fit.b.q", "sub.sub.dataclass"), ("test.ckpt", "sub.str"), ("fit.cfg", "sub.cfg")]


def s_inner(eoe, **kw):
    p = base_parser(eoe, **kw)
    inner = ArgumentParser(exit_on_error=eoe)
    inner.add_argument("--x", type=int, default=1)
    inner.add_argument("--y.z", type=str, default="z")
    inner.add_argument("--m", type=Optional[Base], default=None)
    p.add_argument("--inner", action=ActionParser(parser=inner))
    p.add_argument("--src", type=int, default=0)
    p.add_argument("--tgt", type=PositiveInt, default=1)
    p.link_arguments("src", "tgt", compute_fn=lambda v: v + 1)
    return p


INNER = [("cfg", "cfg"), ("inner", "innerparser"), ("inner.x", "inner.int"), ("inner.y", "inner.group"), ("inner.m", "inner.Optional[class]"), ("src", "linksource"),
         ("tgt", "linktarget")]


def s_jsonnet(eoe, **kw):
    p = base_parser(eoe, parser_mode="jsonnet", **kw)
    p.add_argument("--i", type=int, default=1)
    p.add_argument("--di", type=Dict[str, int])
    p.add_argument("--d", type=DC)
    p.add_argument("--m", type=Optional[Base], default=None)
    return p


def s_omegaconf(eoe, **kw):
    p = base_parser(eoe, parser_mode="omegaconf", **kw)
    p.add_argument("--i", type=int, default=1)
    p.add_argument("--di", type=Dict[str, int])
    p.add_argument("--d", type=DC)
    p.add_argument("--m", type=Optional[Base], default=None)
    return p


MODES = [("cfg", "cfg"), ("i", "int"), ("di", "Dict[str,int]"), ("d", "dataclass"), ("m", "Optional[class]")]


def s_jsonmode(eoe, **kw):
    # a mode whose own loader is not PyYAML: what the type arms read with PyYAML must still fail as a parse error
    p = base_parser(eoe, parser_mode="json", **kw)
    p.add_argument("--i", type=int, default=1)
    p.add_argument("--f", type=float)
    p.add_argument("--b", type=bool)
    p.add_argument("--di", type=Dict[str, int])
    p.add_argument("--d", type=DC)
    p.add_argument("--m", type=Optional[Base], default=None)
    return p


JSONMODE = [("cfg", "cfg"), ("i", "int"), ("f", "float"), ("b", "bool"), ("di", "Dict[str,int]"), ("d", "dataclass"), ("m", "Optional[class]")]

SHAPES = [("flat", s_flat, FLAT), ("nested", s_nested, NESTED), ("subclass", s_subclass, SUBCLASS), ("subcommands", s_subcommands, SUBCOMMANDS),
          ("inner", s_inner, INNER), ("jsonnet", s_jsonnet, MODES), ("omegaconf", s_omegaconf, MODES), ("jsonmode", s_jsonmode, JSONMODE)]

# ------------------------------------------------------------------ the value grammar
V_SCALAR = ["1", "abc", "", " ", "null", "true", "-1", "1.5", "0x_", "0b_", "._", "-._", "+.__", ".inf", ".nan", "1e3", "1_000", "1:30", "~", "2020-01-01",
            "=", "-", "--", "---", "...", "-x", "+", "%", "@", "`", "!", "!!", "&", "&a", "*", "*a", "|", ">", "?", ":", "a:", ": a", "#", "\t", "\n", "\x00",
            "\x85", "\ufeff", "\u00e9", "\U0001F600", "x" * 70000, "9" * 5000, "1" + "0" * 400, "1e999", "-0", "0o8", "08", "1__", "on", "No"]
V_BROKEN = ["{", "}", "[", "]", "{a", "{a:", "{a: 1", '{"a":', '{"a": 1,}', "[1,", "[1 2]", '"abc', "'abc", "{{", "[[", "{]", "- a\n-", "a: 1\n b: 2", "a:\n- 1\n b",
            "{a: 1}: 2", "? [a]\n: 1", "[a]: 1", "{? a}", "a: 1\na: 2", "<<: 1", "<<: [1]", "<<: *a", "{<<: {a: 1}}", "a: &x [*x]", "&x [*x]", "&x {a: *x}", "[&x a, *x]",
            "*undefined", "--- a\n--- b", "%YAML 1.1\n---\na", "%TAG ! x\n---", "%YAML 9.9\n--- a", "a: b: c", "\"\\x\"", "\"\\ud800\"", "[" * 400 + "]" * 400,
            "{a: " * 300 + "1" + "}" * 300]
V_TAGS = ["!!python/object:os.system x", "!!python/name:os.system", "!!python/object/apply:os.getcwd []", "!!binary abc", "!!binary =", "!!binary \u00e9", "!!set {a}",
          "!!set [a]", "!!omap [a: 1]", "!!omap {a: 1}", "!!pairs [1]", "!!int abc", "!!int ''", "!!float x", "!!bool x", "!!null x", "!!timestamp x",
          "!!timestamp 2020-13-45", "!!timestamp 2020-01-01 99:99:99", "!!str", "!!map [1]", "!!seq {a: 1}", "!!str {a: 1}", "!x y", "!<tag:yaml.org,2002:int> z",
          "{a: !!int x}", "[!!timestamp x]", "{!!timestamp x: 1}", "{a: !!bool x}", "{a: !!float x}", "{a: !!binary '*'}", "{a: ._}", "[._]", "{._: 1}", "{a: 0x_}",
          "{0b_: 1}", "!!merge x", "!!value x", "!!yaml x"]
V_CLASS = [cp("Leaf"), "Leaf", "Base", "bounded.gen_f", cp("not_a_class"), cp("NOT_CALLABLE"), cp("func"), cp("Color"), cp("DC"), cp("Nope"), cp("Leaf.x"),
           "builtins.int", "int", "type", "typing.Any", "os", "os.path", "os.getcwd", "os.sep", "os.system", "abc.ABC", "calendar.Calendar", "calendar.TextCalendar",
           "nonexistent.Mod", "nonexistent", ".", "..", "a..b", "calendar.", ".calendar", "calendar.Calendar.", "1.2", "a b.c", "a/b.c", "os.path.join.x",
           '{"class_path": 1}', '{"class_path": null}', '{"class_path": ""}', '{"class_path": "."}', '{"class_path": "a..b"}', '{"class_path": "os"}',
           '{"class_path": "os.path"}', '{"class_path": "os.getcwd"}', '{"class_path": "nonexistent.Mod"}', '{"class_path": "calendar.Nope"}',
           '{"class_path": []}', '{"class_path": {"class_path": "x"}}', '{"class_path": true}', '{"class_path": 1.5}',
           '{"class_path": "calendar.Calendar", "init_args": 1}', '{"class_path": "calendar.Calendar", "init_args": []}',
           '{"class_path": "calendar.Calendar", "init_args": "x"}', '{"class_path": "calendar.Calendar", "init_args": null}',
           '{"class_path": "calendar.Calendar", "init_args": {"firstweekday": "x"}}', '{"class_path": "calendar.Calendar", "init_args": {"zz": 1}}',
           '{"class_path": "calendar.Calendar", "init_args": {"firstweekday": {"class_path": 1}}}', '{"class_path": "calendar.Calendar", "dict_kwargs": 1}',
           '{"class_path": "calendar.Calendar", "dict_kwargs": [1]}', '{"class_path": "calendar.Calendar", "dict_kwargs": {"1": 2}}',
           '{"class_path": "calendar.Calendar", "init_args": {}, "zz": 1}', '{"init_args": {}}', '{"init_args": 1}', '{"init_args": {"req": "x"}}', '{"dict_kwargs": {}}',
           '{"class_path": "%s", "init_args": {"child": {"class_path": 1}}}' % cp("Sub"), '{"class_path": "%s", "init_args": {"child": "os"}}' % cp("Sub"),
           '{"class_path": "%s", "init_args": {"child": {"init_args": 1}}}' % cp("Sub"), '{"class_path": "%s", "init_args": {"dc": 1}}' % cp("Sub"),
           '{"class_path": "%s", "init_args": {"dc": {"x": []}}}' % cp("Sub"), '{"class_path": "%s", "init_args": {"dc": {"class_path": 1}}}' % cp("Sub"),
           '{"class_path": "%s"}' % cp("Leaf"), '{"class_path": "%s", "init_args": {"req": 1}}' % cp("Leaf"), '{"x": 1}', '{"x": "a"}', '{"x": 1, "inner": 1}',
           '{"x": 1, "inner": {"p": []}}', '{"x": 1, "inner": {"zz": 1}}', '[{"x": 1}, 1]', '[{"x": 1, "zz": 2}]', '{"k": {"x": "a"}}', '{"k": 1}', "[1, 2]", '[1, "a", 3]',
           '{"a": 1}', '{"a": "b"}', '{"a": {"b": 1}}', '{"1": 1}', "{1: 1}", "{null: 1}", "{true: 1}", "{[1]: 1}"]
V_PATHS = ["<missing>", "<dir>", "<empty>", "<binary>", "<nulfile>", "<selfalias>", "<good>", "<unreadable>", "<dangling>", "<linkloop>", "/dev/null", "/", "a\x00b", "x" * 5000, "~", "~nouser/x", "./", "..",
           "file:///tmp", "http://localhost:1/x", "<dir>/", "<good>/x"]
QUICK_VALUES = ["1", "abc", "", "null", "._", "1" + "0" * 400, "{", "!!timestamp x", "&x [*x]", "-", "--", "\x00", '{"class_path": 1}', cp("Leaf"), "os", "<missing>", "<dir>", "<dangling>", "=",
                "a: 1\n b: 2", "[._]", "{a: !!bool x}", cp("Nope"), "nonexistent.Mod"]

NAME_VARIANTS = ["--N", "--N.", "--N..", "--N.zzq", "--N..zzq", "--N+", "--N++", "--N+.x", "--N.init_args", "--N.init_args.", "--N.init_args.zzq", "--N.init_args.req",
                 "--N.class_path", "--N.dict_kwargs", "--N.dict_kwargs.k", "--N.dict_kwargs.", "--N.help", "--N.0", "--N.x", "--N.x.y", "--.N", "-N", "---N", "--N ", "--N\n",
                 "--N.k+", "--N.init_args.child.init_args.req", "--N.inner.p", "--no_N", "--N-", "--N_"]
GLOBAL_NAMES = ["--", "--.", "--..", "--+", "-", "-x", "--=", "=", "", " ", "--zzq", "--zzq.k", "--print_config", "--print_config=", "--print_config=x",
                "--print_config=comments,skip_null", "--print_config=skip_default", "--help", "-h", "--he", "--cfg+", "--cfg.x", "--__path__", "--__default_config__", "-1", "-1.5",
                "--1", "-\u00e9", "--\u00e9", "-\x00", "--print_shtab", "--print_shtab=bash", "--print_shtab=x", "--version"]

SEQUENCES = [
    ["--m=Leaf", "--m.init_args.req=x"], ["--m.init_args.req=1"], ["--m.req=1", "--m=Leaf"], ["--m=Leaf", "--m=Sub", "--m.n=1"], ["--m", "Leaf", "--m.zz", "1"],
    ["--cfg", '{"m": {"class_path": "Leaf"}}', "--m.init_args.req", "x"], ["--cfg", '{"m": {"class_path": "Leaf", "init_args": {"n": 1}}}', "--m=Sub"],
    ["--lm+", "Leaf", "--lm.req", "1"], ["--lm+=Leaf", "--lm+=Sub", "--lm.child=Leaf"], ["--lm=[]", "--lm.req=1"], ["--lm+=Leaf", "--lm=1"],
    ["--dm.k=Leaf", "--dm.k.req=1"], ["--dm.k.req=1"], ["--dm={}", "--dm.k=1"], ["--om=null", "--om.req=1"], ["--om=Leaf", "--om=null", "--om.req=1"],
    ["--cal=calendar.Calendar", "--cal.firstweekday=x"], ["--cal.firstweekday=1"], ["--cal=TextCalendar", "--cal.firstweekday", "2", "--cal", "HTMLCalendar"],
    ["--ty=Leaf", "--ty.req=1"], ["--cbc=Leaf", "--cbc.n=1"], ["--cbc=Leaf", "--cbc.req=1"], ["--cb=os.system", "--cb.x=1"], ["--um=1", "--um.x=1"], ["--um.x=1", "--um=Leaf"],
    ["--m=Leaf", "--m.help"], ["--m.help=Leaf", "--m=1"], ["--m=1", "--m.help=Leaf"], ["--print_config", "--m=1"], ["--m=1", "--print_config"], ["--i=x", "--print_config"],
    ["--print_config", "--print_config"], ["--print_config", "--help"], ["--cfg={", "--print_config"], ["--print_config", "--zzq"], ["--print_config=comments", "--i=1"],
    ["--cfg=i: 1", "--cfg=i: x"], ["--cfg=cfg: x"], ["--cfg=cfg: [x]"], ["--cfg=cfg: null"], ["--cfg={cfg: 'i: 2'}"], ["--cfg", "print_config: 1"], ["--cfg", "help: 1"],
    ["--cfg", "__path__: 1"], ["--cfg", "__default_config__: 1"], ["--cfg", "i: 1", "--cfg", "--"], ["--cfg=--"], ["--cfg", "--"], ["--cfg=-"], ["--cfg=--i=1"], ["--cfg=-x"],
    ["--d.x=1", "--d=1"], ["--d=1", "--d.x=1"], ["--d={}", "--d.x=a"], ["--d.inner=1"], ["--d.inner.p=1", "--d.inner=null"], ["--od=null", "--od.x=1"], ["--od.x=1", "--od=null"],
    ["--ld+={}", "--ld.x=1"], ["--ld.x=1"], ["--ld+", '{"x": 1}', "--ld+", "1"], ["--dd.k.x=1"], ["--dd.k={}", "--dd.k.x=a"], ["--c=1"], ["--c={}"], ["--c.child=Leaf", "--c.child.req=a"],
    ["--c.dc.x=1", "--c.dc=null"], ["--fn=1"], ["--fn.fdc=1"], ["--g=1"], ["--g={}"], ["--g.h=1"], ["--g.x", "--g.x"], ["--g.x"], ["--g.x=1", "--g.x"],
    ["fit"], ["fit", "a"], ["fit", "c"], ["zzq"], ["fit", "--lr=x"], ["fit", "--lr"], ["fit", "a", "--pw=x"], ["fit", "a", "b"], ["fit", "--cfg={", "a"], ["fit", "--cfg", "lr: x"],
    ["--cfg", "fit: {lr: x}", "fit"], ["--cfg", "subcommand: zzq"], ["--cfg", "subcommand: 1"], ["--cfg", "subcommand: [fit]"], ["--cfg", "subcommand: fit\nfit: 1"],
    ["--cfg", "fit: {subcommand: zzq}"], ["--cfg", "fit: {a: 1}"], ["--cfg", "{fit: {}, test: {}}"], ["--cfg", "{fit: {lr: 1}, test: {ckpt: x}}"], ["test"], ["test", "--ckpt"],
    ["fit", "--print_config"], ["fit", "a", "--print_config"], ["--print_config", "fit"], ["fit", "--help"], ["fit", "b", "--q=1"], ["fit", "b", "--q.x=a"], ["fit", "--model=1", "a"],
    ["fit", "--model.help"], ["fit", "--model.help=Leaf"], ["--v", "fit"], ["--v=1", "--", "fit"], ["--", "fit"], ["fit", "--"], ["fit", "--", "a"],
    ["--inner=1"], ["--inner={}"], ["--inner.x=a"], ["--inner", "{x: a}"], ["--inner", "<missing>"], ["--inner", "<dir>"], ["--inner", "<binary>"], ["--inner", "{"], ["--inner.m=os"],
    ["--inner.y=1"], ["--src=a"], ["--src=-5"], ["--tgt=5"], ["--tgt=5", "--src=1"], ["--src=null"], ["--cfg", "src: -9"], ["--cfg", "tgt: 3"],
    ["--n", "1"], ["--n", "1", "x"], ["--n=1"], ["--n", "1", "2", "3"], ["--yn=x"], ["--yn", "x"], ["--no_yn=true"], ["--no_yn", "--yn=maybe"], ["1", "2"], ["x"], ["--", "x"], ["--", "-1"],
    ["--li+=a"], ["--li+=1", "--li+=[2]", "--li+=x"], ["--li+"], ["--di.a=1", "--di=x"], ["--di=x", "--di.a=1"], ["--di.a=x"], ["--di+=1"], ["--t+=1"], ["--e=red", "--e+=blue"],
    ["--p=<missing>"], ["--p=<dir>"], ["--p=<good>"], ["--p=a\x00b"], ["--p", ""], ["--any=!!timestamp x"], ["--any", "&x [*x]"], ["--s=!!timestamp x"], ["--s", "._"], ["--u=._"],
]

TEXT_GLOBAL = ["", " ", "\n", "#", "---", "...", "--- \n...", "null", "~", "1", "abc", "[]", "[1]", "{}", "- a", "? a", "a", "a:", ": 1", "{a}", "{a, b}", "a: 1\n---\na: 2",
               "\ufeffa: 1", "\x00", "a: \x00", "a: \x01", "\x85", "\udcff", "%", "%YAML 1.1", "!!map {}", "!!map", "!!omap [i: 1]", "!!set {i}", "!!python/dict {}",
               "1: 2", "null: 1", "true: 1", "1.5: 1", "[1]: 2", "? [i]\n: 1", "? {i: 1}\n: 2", "{i: 1}: 2", "2020-01-01: 1", "!!timestamp x: 1", "!!binary x: 1", "!!int x: 1",
               "\"\": 1", ".: 1", "..: 1", "a.: 1", ".a: 1", "a..b: 1", "i.: 1", "i..x: 1", "i.x: 1", "' ': 1", "'i ': 1", "-i: 1", "--i: 1", "i+: 1", "__path__: 1",
               "__default_config__: 1", "cfg: 1", "cfg: x", "cfg: [x]", "cfg: null", "cfg: {a: 1}", "cfg: 'i: 2'", "help: 1", "print_config: ''", "i: 1\ni: 2", "<<: {i: 1}",
               "<<: 1", "<<: [1, 2]", "<<: [{i: 1}, 2]", "x: &a {i: 1}\n<<: *a", "i: &a 1\nj: *b", "i: *a", "&a i: 1", "*a : 1", "i: &a [*a]", "&a {i: *a}", "&a [*a]", "&a {*a : 1}",
               "i: !!python/object:os.system x", "i: !!timestamp x", "i: ._", "i: 0x_", "._: 1", "i: !!int x", "i: !!bool x", "i: !!float x", "i: !!binary '*'", "i: !!set {a}",
               "{", "}", "[", "{i: 1", "i: [", "i: {", "i: '", "i: \"", "i: 1\n  j: 2", "i:\n- 1\n j", "\ti: 1", "i: 1\n\tj: 2", "i: |\n x\n  y\n z", "i: >", "i: @", "i: `",
               "{i: 1,, j: 2}", "[,]", "{,}", "i: 1 # c\n# d", "i: 1\n...\nj: 2", "{" * 400, "[" * 400 + "]" * 400, "{i: " * 300 + "1" + "}" * 300, "i: " + "9" * 5000, "x" * 70000]

PYVALS = [("None", lambda: None), ("True", lambda: True), ("1", lambda: 1), ("-1", lambda: -1), ("1.5", lambda: 1.5), ("nan", lambda: float("nan")), ("inf", lambda: float("inf")),
          ("10**30", lambda: 10 ** 30), ("''", lambda: ""), ("'x'", lambda: "x"), ("'._'", lambda: "._"), ("'!!timestamp x'", lambda: "!!timestamp x"), ("b'x'", lambda: b"x"),
          ("[]", lambda: []), ("[1]", lambda: [1]), ("[[]]", lambda: [[]]), ("[None]", lambda: [None]), ("{}", lambda: {}), ("{'a':1}", lambda: {"a": 1}), ("{'a':{}}", lambda: {"a": {}}),
          ("{1:2}", lambda: {1: 2}), ("{None:1}", lambda: {None: 1}), ("{'':1}", lambda: {"": 1}), ("{'a.b':1}", lambda: {"a.b": 1}), ("{'a.':1}", lambda: {"a.": 1}),
          ("{'class_path':1}", lambda: {"class_path": 1}), ("{'class_path':'x'}", lambda: {"class_path": "x"}), ("{'class_path':None}", lambda: {"class_path": None}),
          ("{'class_path':int}", lambda: {"class_path": int}), ("{'class_path':Leaf-class}", lambda: {"class_path": __import__("bounded.gen_f").gen_f.Leaf}),
          ("{'class_path':'calendar.Calendar','init_args':1}", lambda: {"class_path": "calendar.Calendar", "init_args": 1}),
          ("{'class_path':'calendar.Calendar','init_args':[]}", lambda: {"class_path": "calendar.Calendar", "init_args": []}),
          ("{'class_path':'calendar.Calendar','init_args':{1:2}}", lambda: {"class_path": "calendar.Calendar", "init_args": {1: 2}}),
          ("{'class_path':'calendar.Calendar','dict_kwargs':1}", lambda: {"class_path": "calendar.Calendar", "dict_kwargs": 1}),
          ("{'init_args':{}}", lambda: {"init_args": {}}), ("{'init_args':1}", lambda: {"init_args": 1}), ("{'x':1}", lambda: {"x": 1}), ("{'x':[]}", lambda: {"x": []}),
          ("{'x':1,'inner':1}", lambda: {"x": 1, "inner": 1}), ("(1,2)", lambda: (1, 2)), ("{1,2}", lambda: {1, 2}), ("frozenset()", lambda: frozenset()), ("object()", lambda: object()),
          ("int", lambda: int), ("len", lambda: len), ("lambda", lambda: (lambda: 1)), ("Namespace()", lambda: Namespace()), ("Namespace(a=1)", lambda: Namespace(a=1)),
          ("Namespace(x=1)", lambda: Namespace(x=1)), ("Ellipsis", lambda: Ellipsis), ("NotImplemented", lambda: NotImplemented), ("range(3)", lambda: range(3)),
          ("iter([])", lambda: iter([])), ("1+2j", lambda: complex(1, 2)), ("Decimal('1')", lambda: Decimal("1")), ("selfref-list", lambda: _selfref_list()),
          ("selfref-dict", lambda: _selfref_dict()), ("deep-list-3000", lambda: _deep_list(3000)), ("deep-dict-300", lambda: _deep_dict(300)), ("Color.red", lambda: Color.red),
          ("DC(1)", lambda: DC(1)), ("Base(1)", lambda: Base(1)), ("PosixPath", lambda: __import__("pathlib").Path("x")), ("bytearray", lambda: bytearray(b"x")),
          ("str-subclass", lambda: _Str("1")), ("int-subclass", lambda: _Int(1)), ("dict-subclass", lambda: _Dict(x=1))]
OBJ_KEYS = ["", ".", "..", "a.", ".a", "a..b", "K.", "K..x", "K.x", " ", "K ", "-K", "--K", "K+", "__path__", "__default_config__", "help", "print_config", "K.__path__",
            "K.class_path", "K.init_args", "K.init_args.x", "K.dict_kwargs", "K.0", "zzq", "zzq.k"]


class _Str(str):
    pass


class _Int(int):
    pass


class _Dict(dict):
    pass


def _selfref_list():
    x = []
    x.append(x)
    return x


def _selfref_dict():
    x = {}
    x["a"] = x
    return x


def _deep_list(n):
    x = cur = []
    for _ in range(n):
        nxt = []
        cur.append(nxt)
        cur = nxt
    return x


def _deep_dict(n):
    x = cur = {}
    for _ in range(n):
        nxt = {}
        cur["a"] = nxt
        cur = nxt
    return x


# ------------------------------------------------------------------ files
class Files:
    def __init__(self, tmp):
        self.tmp = tmp
        self.map = {"<missing>": os.path.join(tmp, "missing.yaml"), "<dir>": os.path.join(tmp, "adir"), "<empty>": os.path.join(tmp, "empty.yaml"),
                    "<binary>": os.path.join(tmp, "binary.yaml"), "<nulfile>": os.path.join(tmp, "nul.yaml"), "<selfalias>": os.path.join(tmp, "self.yaml"),
                    "<good>": os.path.join(tmp, "good.yaml"), "<unreadable>": os.path.join(tmp, "unreadable.yaml"),
                    "<dangling>": os.path.join(tmp, "dangling.yaml"), "<linkloop>": os.path.join(tmp, "loop.yaml")}
        os.symlink(os.path.join(tmp, "removed-target.yaml"), self.map["<dangling>"])  # a link whose target is gone
        os.symlink(self.map["<linkloop>"], self.map["<linkloop>"])  # a link to itself
        os.mkdir(self.map["<dir>"])
        open(self.map["<empty>"], "w").close()
        with open(self.map["<binary>"], "wb") as f:
            f.write(b"\xff\xfe\x00i: 1\x80")
        with open(self.map["<nulfile>"], "wb") as f:
            f.write(b'i: "\x00"')
        with open(self.map["<selfalias>"], "w") as f:
            f.write("i: &x [*x]\n")
        with open(self.map["<good>"], "w") as f:
            f.write("{}\n")
        with open(self.map["<unreadable>"], "w") as f:
            f.write("{}\n")
        os.chmod(self.map["<unreadable>"], 0)
        self.n = 0

    def sub(self, s):
        for k, v in self.map.items():
            if k in s:
                s = s.replace(k, v)
        return s

    def text_file(self, text):
        path = os.path.join(self.tmp, "t.yaml")
        with open(path, "w", encoding="utf-8", errors="surrogatepass") as f:
            f.write(text)
        return path


def short(s, n=60):
    s = s.encode("unicode_escape").decode("ascii") if isinstance(s, str) else repr(s)
    if len(s) > n:
        s = s[: n - 12] + f"...({len(s)})"
    return s


# ------------------------------------------------------------------ the contract
class Rec:
    def __init__(self):
        self.calls = []
        self.stats = {"ok": 0, "ArgumentError": 0, "exit2": 0, "exit0": 0, "violations": 0, "unstable": 0}

    def check(self, ok, key, what="", case=None):
        self.calls.append(("check", bool(ok), key, "" if ok else what, None if ok else case))

    def nontrivial(self, sig):
        self.calls.append(("nontrivial", sig))


def wants_exit0(argv):
    """True iff the argv contains a token that (also by unambiguous-prefix abbreviation) may ask for help, version, print_config or a shell-completion script."""
    for a in argv:
        if a.startswith(("-h", "--h", "--p", "--v")) or ".help" in a:
            return True
    return False


def scrub(x, tmp):
    """The temporary directory of this run is written <tmp> in the recorded cases (see class Files for what the files contain)."""
    if isinstance(x, str):
        return x.replace(tmp, "<tmp>")
    if isinstance(x, (list, tuple)):
        return [scrub(y, tmp) for y in x]
    if isinstance(x, dict):
        return {k: scrub(v, tmp) for k, v in x.items()}
    return x


def verdict(eoe, r, argv):
    """The contract table.  Returns (kind, what, tag) for a violation, or (None, outcome class, '')."""
    if r["kind"] == "timeout":
        return "timeout", "no result within the CPU time limit (10 s thorough / 3 s quick; an ordinary call takes < 0.3 s)", "Timeout"
    if r["kind"] == "ok":
        if not isinstance(r["value"], Namespace):
            return "notnamespace", f"returned {type(r['value']).__name__}", type(r["value"]).__name__
        return None, "ok", ""
    if r["kind"] == "exc":
        tag = f"{r['cls']}@{r['site']}" if r["cls"] != "RecursionError" else "RecursionError"  # (the frame where the stack limit is hit is arbitrary)
        if r["cls"] != "ArgumentError":
            return "escape", f"{r['cls']} escaped: {r['msg'][:200]}", tag
        if eoe:
            return "wrongchannel", f"exit_on_error=True but ArgumentError was raised instead of usage + exit(2): {r['msg'][:200]}", tag
        return None, "ArgumentError", ""
    code = r["code"]
    tag = f"exit({code})"
    if code == 0:
        if argv is not None and wants_exit0(argv):
            return None, "exit0", ""
        return "badexit", "exit status 0 although neither help nor print_config was requested", tag
    if code == 2:
        if not eoe:
            return "wrongchannel", f"exit_on_error=False but the process was exited with status 2: {r['err'][-200:]}", tag
        if "usage:" not in r["err"] or "error:" not in r["err"]:
            return "badexit", f"exit status 2 without usage + error line on stderr: {r['err'][-200:]!r}", tag
        return None, "exit2", ""
    return "badexit", f"exit status {code!r}", tag


def canon_name(variant, label):
    return variant.replace("N", f"<{label}>")


def real_name(variant, name):
    return variant.replace("N", name)


ALL_VALUES = V_SCALAR + V_BROKEN + V_TAGS + V_CLASS + V_PATHS
LOADER_VALUES = V_SCALAR + V_BROKEN + V_TAGS   # their fate is mostly decided by the loader, whatever the option's type

# Self-referential MAPPINGS make `_apply_actions` loop without end (each such call costs the whole time limit), so the quick tier
# uses them at a fixed, small set of places; the thorough tier uses them everywhere.
SELFREF = {"&x {a: *x}", "&a {i: *a}", "selfref-dict"}
QUICK_MALFORMED_VALUES = ["1", "", "._", "{", "!!timestamp x", cp("Leaf"), "<missing>", '{"class_path": 1}', "--"]
QUICK_EXIT_VALUES = QUICK_VALUES + V_TAGS[:12] + ['[{"x": 1, "zz": 2}]', '{"x": 1, "zz": 2}', '{"k": {"x": "a"}}', '{"class_path": "calendar.Calendar", "init_args": {"zz": 1}}',
                                                '{"class_path": "%s", "init_args": {"child": {"class_path": 1}}}' % cp("Sub"), '{"x": 1, "inner": {"zz": 1}}']
THOROUGH_MALFORMED_VALUES = QUICK_VALUES + V_TAGS[:10]
CLASSY = ("class", "Callable", "Type", "dataclass", "Any", "group", "inner", "Union", "cfg", "Dict", "List")


class Ctx:
    def __init__(self, job, files):
        self.si, self.eoe, self.part, self.ci, self.nc, self.thorough, self.seed = job
        self.shape, self.build, self.allnames = SHAPES[self.si]
        self.names = self.allnames[self.ci::self.nc]
        self.first = self.ci == 0
        self.files = files
        self.h = Rec()
        self.limit = LIMIT if self.thorough else QUICK_LIMIT
        self.cached = None
        self.unstable = 0
        self.maxcpu = 0.0

    # -- input selection
    def rep(self, name):
        """The representative options of a shape get the complete loader-level value lists in the quick tier."""
        return name in [n for n, _ in self.allnames[:3]]

    def selfref_ok(self, v, where):
        """May the self-referential mapping `v` be used here? (always in thorough; quick: flat shape in raise mode, and parse_string of every shape)"""
        if v not in SELFREF or self.thorough:
            return True
        if self.eoe:
            return self.shape == "flat" and where == "parse_string"
        return (self.shape == "flat" and where != "object") or where in ("parse_string", "object-first")

    def values(self, name, label, part):
        """Which values an option gets.  thorough: all of them.  quick: the complete loader-level lists on the 3 representative options of the
        shape, the class/import-path list on the first class-like options (4 on argv, 1 in documents), a short list elsewhere; shorter in exit mode."""
        if self.thorough:
            return ALL_VALUES
        rep = self.rep(name)
        classy = [n for n, l in self.allnames if n != "cfg" and any(t in l for t in CLASSY)]
        if self.shape in ("jsonnet", "omegaconf"):
            out = QUICK_VALUES + V_TAGS[:12] + V_BROKEN[:12] + V_PATHS[:4] if rep and not self.eoe else QUICK_VALUES[:6]
        elif self.eoe:
            out = QUICK_EXIT_VALUES if rep or name in classy else QUICK_VALUES[:6]
        else:
            out = list(LOADER_VALUES) if rep else list(QUICK_VALUES) if part == "argv" else QUICK_VALUES[:10]
            if name in classy[: 4 if part == "argv" else 1]:
                out += [v for v in V_CLASS if v not in out]
            if part == "argv" and any(t in label for t in ("cfg", "Path", "Any", "inner")):
                out += [v for v in V_PATHS if v not in out]
        return [v for v in out if v not in SELFREF or rep]

    # -- running one input
    def parser(self):
        if self.cached is None:
            self.cached = self.build(self.eoe)
        return self.cached

    def call(self, method, canon, case, fn, argv=None, stdin="", trig=None, own_parser=False):
        """fn(parser) performs the call.  The parser is reused between inputs as long as nothing unusual happened; every violation
        is re-run on a FRESH parser and reported only if it shows there too (so that each reported case is self-contained)."""
        h = self.h
        mode = "exit" if self.eoe else "raise"
        h.nontrivial((self.shape, mode, method, canon))
        reuse = not own_parser and not (argv is not None and wants_exit0(argv))
        p = self.parser() if reuse else (None if own_parser else self.build(self.eoe))
        t0 = time.process_time()
        r = run(lambda: fn(p), limit=self.limit, stdin=stdin)
        if r["kind"] != "timeout":
            self.maxcpu = max(self.maxcpu, time.process_time() - t0)
        kind, what, tag = verdict(self.eoe, r, argv)
        if kind == "timeout":
            self.cached = None  # (no confirmation run: an endless loop does not depend on what the parser parsed before)
        elif kind is not None and reuse:
            self.cached = None
            r = run(lambda: fn(self.build(self.eoe)), limit=self.limit, stdin=stdin)
            kind2, what, tag = verdict(self.eoe, r, argv)
            if kind2 is None:
                self.unstable += 1
            kind = kind2
        if kind is None:
            h.stats[what] += 1
            h.check(True, "")
            return
        h.stats["violations"] += 1
        case = dict(case, shape=self.shape + " (builder s_%s in bounded/b03_error_channel.py)" % self.shape, exit_on_error=self.eoe, method=method, input=canon)
        if argv is not None:
            case["argv"] = list(argv)
        case = scrub(case, self.files.tmp)
        h.check(False, f"c03:{kind}:{tag}:{method}:{trig if trig is not None else canon}"[:149], scrub(f"{method}: {what}", self.files.tmp), case)

    def args(self, canon, argv, case=None, trig=None):
        argv = list(argv)
        self.call("parse_args", canon, case or {}, lambda p: p.parse_args(list(argv)), argv=argv, stdin="i: 1\n", trig=trig)


def work(job):
    os.environ.pop("JSONARGPARSE_DEBUG", None)
    cwd = os.getcwd()
    with tempfile.TemporaryDirectory() as tmp:
        files = Files(tmp)
        c = Ctx(job, files)
        os.chdir(tmp)
        try:
            {"argv": do_argv, "argv2": do_argv_malformed, "text": do_text, "object": do_object, "random": do_random}[c.part](c)
        finally:
            os.chdir(cwd)
            os.chmod(files.map["<unreadable>"], 0o600)
    c.h.stats["unstable"] = c.unstable
    return c.h


def sub_argv(shape, name, *tokens):
    """Options of subcommand parsers are given behind the subcommand name(s)."""
    if shape == "subcommands" and "." in name and name.split(".")[0] in ("fit", "test"):
        return name.split(".")[:-1] + list(tokens)
    return list(tokens)


def leaf(name):
    parts = name.split(".")
    if parts[0] in ("fit", "test") and len(parts) > 1:
        return parts[-1]
    return name


def do_argv(c):
    """known option x value (form --name=value); a second form (--name value) for a sub-list; the hand-written sequences."""
    for name, label in c.names:
        for v in c.values(name, label, "argv"):
            if not c.selfref_ok(v, "argv"):
                continue
            rv = c.files.sub(v)
            c.args(f"--<{label}>={short(v)}", sub_argv(c.shape, name, f"--{leaf(name)}={rv}"), trig="=" + short(v))
            if (c.thorough and (v in V_TAGS or v in V_PATHS) or v in QUICK_VALUES) and not (c.eoe and not c.thorough):
                c.args(f"--<{label}> {short(v)}", sub_argv(c.shape, name, f"--{leaf(name)}", rv), trig=" " + short(v))
    if c.first:
        for seq in SEQUENCES:
            c.args("seq:" + short(" ".join(seq), 90), [c.files.sub(a) for a in seq])


def do_argv_malformed(c):
    values = THOROUGH_MALFORMED_VALUES if c.thorough else QUICK_MALFORMED_VALUES[2:3] if c.eoe else QUICK_MALFORMED_VALUES
    names = c.names if c.thorough else [(n, l) for n, l in c.names if (n, l) in c.allnames[:3]]
    if not c.thorough and c.shape in ("jsonnet", "omegaconf"):
        names = [(n, l) for n, l in c.names if n == "di"]
    if c.shape == "subcommands":
        names = [(n, l) for n, l in c.names if n in (("cfg", "v", "fit.lr", "fit.model", "fit.b.q") if c.thorough else ("cfg", "fit.lr", "fit.model"))]
    for name, label in names:
        for variant in NAME_VARIANTS[1:]:
            opt = real_name(variant, leaf(name))
            cn = canon_name(variant, label)
            c.args(cn, sub_argv(c.shape, name, opt))
            for v in values:
                if not c.selfref_ok(v, "argv"):
                    continue
                rv = c.files.sub(v)
                c.args(f"{cn}={short(v)}", sub_argv(c.shape, name, f"{opt}={rv}"), trig=f"{variant}={short(v)}")
                if v in ("1", ""):
                    c.args(f"{cn} {short(v)}", sub_argv(c.shape, name, opt, rv), trig=f"{variant} {short(v)}")
    if c.first and (c.thorough or c.shape not in ("jsonnet", "omegaconf")):
        for g in GLOBAL_NAMES:
            c.args(short(g), [g])
            for v in values:
                if not c.selfref_ok(v, "argv"):
                    continue
                rv = c.files.sub(v)
                c.args(f"{short(g)}={short(v)}", [g + "=" + rv] if "=" not in g else [g + rv])
                c.args(f"{short(g)} {short(v)}", [g, rv])


def nest(name, value_text):
    """The YAML document `a:\n  b:\n    c: V` for the dotted name a.b.c and the raw value text V."""
    parts = name.split(".")
    lines = []
    for i, p in enumerate(parts[:-1]):
        lines.append("  " * i + p + ":")
    ind = "  " * (len(parts) - 1)
    v = value_text.replace("\n", "\n" + ind + "  ")
    lines.append(f"{ind}{parts[-1]}: {v}")
    return "\n".join(lines)


def do_text(c):
    """parse_string / parse_path / --cfg=<file> / default_config_files / parse_env(APP_CFG) / parse_env(APP_<NAME>) / config paths."""
    build, eoe, files = c.build, c.eoe, c.files

    def ways(text, canon, heavy, selfref=False, trig=None):
        t = trig if trig is not None else canon
        if not selfref or c.selfref_ok(next(iter(SELFREF)), "parse_string"):
            c.call("parse_string", canon, {"text": text}, lambda p: p.parse_string(text), trig=t)
        if selfref and not c.selfref_ok(next(iter(SELFREF)), "other"):
            return
        if heavy:
            try:
                path = files.text_file(text)
            except (UnicodeError, ValueError):
                path = None
            if path:
                c.call("parse_path", "file:" + canon, {"file_content": text}, lambda p: p.parse_path(path), trig="file:" + t)
                c.args("--cfg=file:" + canon, [f"--cfg={path}"], {"file_content": text}, trig="--cfg=file:" + t)
                c.call("parse_args", "default_config_files:" + canon, {"default_config_files": ["<file>"], "file_content": text, "argv": []},
                       lambda p: build(eoe, default_config_files=[path]).parse_args([]), own_parser=True, trig="default_config_files:" + t)
            if "\x00" not in text:
                c.call("parse_env", "APP_CFG=" + canon, {"env": {"APP_CFG": text}}, lambda p: p.parse_env({"APP_CFG": text}), trig="APP_CFG=" + t)

    if c.first:
        for text in TEXT_GLOBAL:
            ways(text, short(text), c.thorough or (not eoe and c.shape in ("flat", "subcommands")), selfref=text in SELFREF)
        # paths given directly to parse_path / as default config file
        for v in V_PATHS + ["", " ", "-", "\n", "\udcff", "<good>\x00"]:
            rv = files.sub(v)
            c.call("parse_path", "path:" + short(v), {"path": rv}, lambda p: p.parse_path(rv), stdin="{")
            c.call("parse_args", "default_config_files:path:" + short(v), {"default_config_files": [rv], "argv": []},
                   lambda p: build(eoe, default_config_files=[rv]).parse_args([]), own_parser=True)
    for name, label in c.names:
        for v in c.values(name, label, "text"):
            if not c.thorough and v in V_PATHS:
                continue
            rv = files.sub(v)
            ways(nest(name, rv), f"<{label}>: {short(v)}", c.thorough and (v in QUICK_VALUES or v in V_TAGS) or (v in QUICK_VALUES[:6] and not eoe and c.rep(name) and c.shape in ("flat", "nested", "subclass")), selfref=v in SELFREF, trig=": " + short(v))
            if "." in name and (c.thorough or v in QUICK_VALUES) and v not in SELFREF:
                ways(f"{name}: {rv}", f"dotted <{label}>: {short(v)}", False, trig="dotted: " + short(v))
            # the per-argument environment variable
            if "\x00" not in rv and c.selfref_ok(v, "env"):
                env = {"APP_" + name.replace(".", "__").upper(): rv}
                if c.shape == "subcommands" and name.split(".")[0] in ("fit", "test"):
                    env["APP_SUBCOMMAND"] = name.split(".")[0]
                    if name.split(".")[1:2] in (["a"], ["b"]):
                        env["APP_FIT__SUBCOMMAND"] = name.split(".")[1]
                c.call("parse_env", f"APP_<{label}>={short(v)}", {"env": env}, lambda p: p.parse_env(dict(env)), trig="APP_<>=" + short(v))


def put(obj, dotted, value):
    parts = dotted.split(".")
    cur = obj
    for p in parts[:-1]:
        cur = cur.setdefault(p, {})
    cur[parts[-1]] = value
    return obj


QUICK_PYVALS = ("None", "1", "'x'", "{}", "[]", "object()", "{'class_path':1}", "{'x':1,'inner':1}", "[None]", "'._'", "{1:2}", "selfref-list", "b'x'")


def do_object(c):
    eoe = c.eoe
    few = [PYVALS[i] for i in (0, 2, 9, 17, 18)]  # None, 1, 'x', {}, {'a': 1}
    for name, label in c.names:
        for vname, mk in PYVALS:
            if not c.selfref_ok(vname, "object-first" if (name, label) == c.allnames[1] else "object"):
                continue
            if not c.thorough and vname not in QUICK_PYVALS and (eoe or not (c.rep(name) or any(t in label for t in CLASSY))):
                continue
            if not c.thorough and (vname.startswith(("deep-", "selfref-list")) and not c.rep(name) or c.shape in ("jsonnet", "omegaconf") and vname not in QUICK_PYVALS):
                continue
            for style in ("nested", "dotted"):
                if style == "dotted" and ("." not in name or vname in SELFREF and not c.thorough):
                    continue

                def go(p):
                    v = mk()
                    return p.parse_object(put({}, name, v) if style == "nested" else {name: v})
                c.call("parse_object", f"{style}:<{label}>={vname}", {"cfg_obj": f"{{{name!r}: {vname}}} ({style})"}, go, trig=f"<{label}>={vname}")
            if c.thorough or vname in ("None", "1", "'x'", "{}", "[]", "object()", "{'class_path':1}") and not eoe:
                def go_ns(p):
                    ns = Namespace()
                    ns[name] = mk()
                    return p.parse_object(ns)
                c.call("parse_object", f"namespace:<{label}>={vname}", {"cfg_obj": f"Namespace with [{name!r}] = {vname}"}, go_ns, trig=f"<{label}>={vname}")
        for kt in OBJ_KEYS:
            if "K" not in kt:
                continue
            key = kt.replace("K", name)
            if not c.thorough and (eoe or not c.rep(name)) and kt not in ("K.", "K..x", "K.x", "K+"):
                continue
            for vname, mk in (few if c.thorough else few[1:4:2] if not eoe else few[1:2]):
                c.call("parse_object", f"key:{kt.replace('K', '<' + label + '>')}={vname}", {"cfg_obj": f"{{{key!r}: {vname}}}"}, lambda p: p.parse_object({key: mk()}),
                       trig=f"key:{kt}={vname}")
    if c.first:
        for kt in OBJ_KEYS:
            if "K" in kt:
                continue
            for vname, mk in few:
                c.call("parse_object", f"key:{short(kt)}={vname}", {"cfg_obj": f"{{{kt!r}: {vname}}}"}, lambda p: p.parse_object({kt: mk()}))
        c.call("parse_object", "empty", {"cfg_obj": {}}, lambda p: p.parse_object({}))
        c.args("empty", [])
        c.call("parse_env", "empty", {"env": {}}, lambda p: p.parse_env({}))
        c.call("parse_args", "non-str-argv", {"argv": [1]}, lambda p: p.parse_args([1]))


def do_random(c):
    """thorough only: seeded random argv lists of 1-4 options from the whole grammar."""
    rng = random.Random(c.seed * 7919 + c.si * 64 + c.ci * 2 + int(c.eoe))
    pool = [x for x in ALL_VALUES if x not in SELFREF]
    for n in range(400):
        argv = []
        for _ in range(rng.randint(1, 4)):
            if rng.random() < 0.15:
                tok = rng.choice(GLOBAL_NAMES)
            else:
                name, _label = rng.choice(c.allnames)
                tok = real_name(rng.choice(NAME_VARIANTS), leaf(name))
                if c.shape == "subcommands" and name.split(".")[0] in ("fit", "test") and rng.random() < 0.8:
                    argv += name.split(".")[:-1]
            v = c.files.sub(rng.choice(pool))
            r = rng.random()
            if r < 0.6:
                argv.append(tok + "=" + v)
            elif r < 0.9:
                argv += [tok, v]
            else:
                argv.append(tok)
        c.args(f"random:{c.ci}:{n}:" + short(" ".join(argv), 90), argv)


def main():
    h = Harness("b03_error_channel", rule=(
        "7 parser shapes x both exit_on_error modes x {known option x up to ~330 values in 2 argv forms; 30 malformed spellings of the options + 34 global tokens x 8 "
        "values (30 in thorough); ~190 hand-written multi-option sequences; ~140 config documents + (key: value) documents through parse_string, parse_path, "
        "--cfg=<file>, default_config_files, APP_CFG; per-argument environment variables; 26 kinds of config path; parse_object with 66 Python values at every key, "
        "26 malformed keys}; quick tier: the full loader-level value lists on 3 representative options per shape, class values on class-like options, a sub-list "
        "elsewhere and in exit mode; non-trivial = distinct (shape, mode, method, canonical input) - every one is a call of a public parse method"))
    saved_env = dict(os.environ)
    parts = ["text", "argv", "argv2", "object"] + (["random"] if h.thorough else [])
    jobs = []
    for part in parts:
        for si in range(len(SHAPES)):
            n = len(SHAPES[si][2])
            nc = 4 if part == "random" else n if h.thorough else max(1, n // 2)
            if not h.thorough and SHAPES[si][0] == "jsonnet" and part in ("argv2", "object"):
                continue  # (a jsonnet evaluation costs ~50 ms; the quick tier sends this shape only option values and documents)
            for eoe in (False, True):
                for ci in range(nc):
                    jobs.append((si, eoe, part, ci, nc, h.thorough, h.seed))
    if h.only:
        jobs = [j for j in jobs if f"{SHAPES[j[0]][0]}/{'exit' if j[1] else 'raise'}/{j[2]}/{j[3]}" == h.only]
    # long jobs first: raise mode before exit mode, chunk 0 (which also carries the global inputs) first
    sched = sorted(range(len(jobs)), key=lambda n: (jobs[n][1], jobs[n][3] != 0, parts.index(jobs[n][2])))
    with multiprocessing.get_context("fork").Pool(16) as pool:
        res = pool.map(work, [jobs[n] for n in sched], chunksize=1)
    results = [None] * len(jobs)
    for n, r in zip(sched, res):
        results[n] = r
    stats = {}
    # One defect class = (kind, exception@site).  At most PER_CLASS distinct failing inputs of a class become violation keys (all of them match
    # a regex on the class prefix); the further failing inputs of the class are failing evaluations too, and are counted in the notes.
    listed, extra = {}, {}
    for rec in results:
        for c in rec.calls:
            if c[0] == "check":
                if not c[1]:
                    cls = ":".join(c[2].split(":")[:3])
                    keys = listed.setdefault(cls, [])
                    if c[2] not in keys:
                        if len(keys) >= PER_CLASS:
                            extra.setdefault(cls, set()).add(c[2])
                            h.evaluations += 1
                            continue
                        keys.append(c[2])
                h.check(c[1], c[2], c[3], c[4])
            else:
                h.nontrivial(c[1])
        for k, v in rec.stats.items():
            stats[k] = max(stats.get(k, 0), v) if k.startswith("max") else stats.get(k, 0) + v
    os.environ.clear()
    os.environ.update(saved_env)
    h.note(f"outcomes: {stats}; defect classes (kind:exception@site): {len(listed)}; violation keys listed: {len(h.viol_keys)} (at most {PER_CLASS} per class)")
    if extra:
        h.note("further distinct failing inputs per class, not listed as keys: " + ", ".join(f"{k[4:]}: {len(v)}" for k, v in sorted(extra.items())))
    if stats.get("unstable"):
        h.note(f"{stats['unstable']} violations seen on a re-used parser did not show on a fresh parser and were NOT reported (history dependence is C09's subject)")
    h.check(stats.get("ok", 0) > 0 and stats.get("ArgumentError", 0) > 0 and stats.get("exit2", 0) > 0 and stats.get("exit0", 0) > 0, "c03:vacuity",
            f"one of the outcome classes never occurred: {stats}")
    h.sample({"shapes": [s[0] for s in SHAPES], "example argv": ["--m.init_args.req=._"], "example text": "i: !!timestamp x"})
    sys.exit(h.finish(exhaustive=True, bound=(
        f"{len(SHAPES)} shapes x 2 modes; {len(ALL_VALUES)} values; {len(NAME_VARIANTS)} spellings per option; {len(GLOBAL_NAMES)} global tokens; {len(SEQUENCES)} sequences; "
        f"{len(TEXT_GLOBAL)} documents; {len(PYVALS)} Python values; single option per argv except the sequences; time limit per call "
        + (f"{LIMIT} s; + 400 seeded random argv lists (1-4 options) x 4 per shape and mode" if h.thorough else
           f"{QUICK_LIMIT} s; exit mode, malformed spellings and self-referential mappings on sub-lists (see Ctx.values / QUICK_* in the source)"))))


if __name__ == "__main__":
    main()
