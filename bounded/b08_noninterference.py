"""C08 bounded stand-in: parse / validate / dump / save / merge / instantiate never modify what they are given.

Contract (from the statement, evaluated at run time on the real public entry points):
  for every call  op(parser, *arguments)  of
      parse_object, parse_args, parse_env, parse_string, parse_path, validate, dump, save, merge_config, strip_unknown,
      instantiate_classes, get_defaults, format_help
  old(deep_snapshot(x)) == deep_snapshot(x)   for x in  every argument (config objects, dicts, argv lists, env dicts),
                                              every declared default of the parser (action.default of every action of the
                                              parser and of its sub-parsers, parser._defaults), os.getcwd(), os.environ,
                                              vars(argparse)
  whether the call returns, raises or exits.  deep_snapshot = value, type and identity of every nested container
  (Namespace / dict / list / tuple / set), leaves by (type, repr).
  Second clause: instantiate_classes(cfg) twice  ->  for every class_path spec in cfg (also specs that come from lazy_instance
  / dict defaults of arguments and of signatures) the object found in the first result at the place of the spec is not the
  object found there in the second result, and each was constructed during the call that returned it.

Oracle: the snapshot taken before the call (independent of jsonargparse); for the second clause a construction log kept by the
test classes themselves and a structural copy of the configuration taken before the first call (the places of the class_path nodes).

Enumeration (fixed order): parser style x container shape x element kind x value kind x operation, see `rule`/`bound`.
A fresh parser (and fresh test classes, fresh values) is built for every single operation so that a mutation is blamed on the
call that made it.

Violation keys:  c08:mut:<op>:<what>:<via>.<container>:<change>          (cwd / environ / argparse: c08:mut:<op>:<what>[:<name>])
   what      = the argument name (cfg_obj, cfg, args, namespace, env, cfg_from, cfg_to, cfg_base) or defaults / cwd / environ / argparse
   via       = direct | below-tuple | below-set : whether a tuple / set lies between the argument and the changed container
   container = kind of the container whose content changed (ns, dict, list)
   change    = value (an element has another value/type) | replaced (a nested container object was swapped for a different one) |
               replaced-equal (swapped for an equal copy: identity only) | len | keys | key-order | elements | state
   The full container chain (e.g. dict.list.list, ns.tuple.list) and the concrete change (str->int, Color->str, dict->Namespace,
   Namespace->Sub ...) are in the `what` text; the key stays coarse so that one defect gives a bounded number of keys.
and  c08:inst2:<placement>:<source><input#>:<path of the spec in the configuration>:<same-object|not-fresh|not-built>  for the second clause.
"""
import argparse
import copy
import dataclasses
import enum
import json
import os
import re
import sys
import tempfile
from typing import Dict, List, Optional, Set, Tuple, Union

from bounded.common import Harness, outcome

from jsonargparse import ActionConfigFile, ActionParser, ArgumentParser, Namespace, lazy_instance
from jsonargparse._actions import _ActionSubCommands
from jsonargparse._common import parser_context_vars
from jsonargparse.typing import Path_fr

M = __name__
LOG: list = []


# --------------------------------------------------------------------------------------------------------------------
# test vocabulary
# --------------------------------------------------------------------------------------------------------------------
class Color(enum.Enum):
    RED = 1
    BLUE = 2


class Base:
    def __init__(self, x: int = 0, items: List[int] = [1]):
        self.x, self.items = x, items
        LOG.append(self)


class Sub(Base):
    def __init__(self, x: int = 1, items: List[int] = [2], y: str = "y"):
        super().__init__(x, items)
        self.y = y


class Holder:
    """a class whose signature default is a class spec (lazy_instance)"""

    def __init__(self, inner: Base = lazy_instance(Sub, x=5), n: int = 0):
        self.inner, self.n = inner, n
        LOG.append(self)


class Many:
    def __init__(self, many: List[Base] = [], opt: Optional[Base] = None, pair: Optional[Tuple[Base, int]] = None):
        self.many, self.opt, self.pair = many, opt, pair
        LOG.append(self)


@dataclasses.dataclass
class Point:
    x: int = 0
    ys: List[int] = dataclasses.field(default_factory=lambda: [0])


@dataclasses.dataclass
class DHolder:
    inner: Base = dataclasses.field(default_factory=lambda: lazy_instance(Sub, x=7))
    n: int = 0


LOGGED = (Base, Holder, Many)

SUB = {"class_path": f"{M}.Sub", "init_args": {"x": "1"}}
ELEMS = {
    # kind -> element values [e0, e1]; `bad` has the wrong element last so that earlier ones are already adapted
    "int": dict(T=int, hashable=True, canon=[1, 2], conv=["1", "2"], bad=["1", "x"]),
    "float": dict(T=float, hashable=True, canon=[1.0, 2.5], conv=[1, "2.5"], bad=[1, "x"]),
    "enum": dict(T=Color, hashable=True, canon=[Color.RED, Color.BLUE], conv=["RED", "BLUE"], bad=["RED", "NOPE"]),
    "optint": dict(T=Optional[int], hashable=True, canon=[1, None], conv=["1", None], bad=["1", "x"]),
    "base": dict(T=Base, hashable=False, conv=[SUB, f"{M}.Base"], bad=[SUB, {"class_path": f"{M}.Sub", "init_args": {"x": "bad"}}]),
    "dc": dict(T=Point, hashable=False, conv=[{"x": "1", "ys": ["2"]}, {"x": 3, "ys": [4]}], bad=[{"x": "1", "ys": ["2"]}, {"x": "q"}]),
}

SHAPES = [
    # name, type constructor, value builder from e(i) (fresh element i), needs hashable elements
    ("List[E]", lambda E: List[E], lambda e: [e(0), e(1)], False),
    ("List[List[E]]", lambda E: List[List[E]], lambda e: [[e(0)], [e(0), e(1)]], False),
    ("Dict[str,E]", lambda E: Dict[str, E], lambda e: {"k0": e(0), "k1": e(1)}, False),
    ("Dict[str,List[E]]", lambda E: Dict[str, List[E]], lambda e: {"k0": [e(0), e(1)]}, False),
    ("Dict[int,List[E]]", lambda E: Dict[int, List[E]], lambda e: {3: [e(0), e(1)]}, False),
    ("Optional[List[E]]", lambda E: Optional[List[E]], lambda e: [e(0), e(1)], False),
    ("Union[int,List[E]]", lambda E: Union[int, List[E]], lambda e: [e(0), e(1)], False),
    ("Tuple[List[E],int]", lambda E: Tuple[List[E], int], lambda e: ([e(0), e(1)], 7), False),
    ("Tuple[Dict[str,E],int]", lambda E: Tuple[Dict[str, E], int], lambda e: ({"k0": e(0), "k1": e(1)}, 7), False),
    ("Tuple[List[E],...]", lambda E: Tuple[List[E], ...], lambda e: ([e(0)], [e(0), e(1)]), False),
    ("List[Tuple[List[E],int]]", lambda E: List[Tuple[List[E], int]], lambda e: [([e(0), e(1)], 7)], False),
    ("Tuple[Tuple[List[E],int],int]", lambda E: Tuple[Tuple[List[E], int], int], lambda e: (([e(0), e(1)], 7), 8), False),
    ("Tuple[Set[int],List[E]]", lambda E: Tuple[Set[int], List[E]], lambda e: ({4, 5}, [e(0), e(1)]), False),
    ("Set[Tuple[E,E]]", lambda E: Set[Tuple[E, E]], lambda e: {(e(0), e(1))}, True),
    ("Dict[str,Set[E]]", lambda E: Dict[str, Set[E]], lambda e: {"k0": {e(0), e(1)}}, True),
    ("List[Set[E]]", lambda E: List[Set[E]], lambda e: [{e(0), e(1)}], True),
]
# quick tier: the slow element kinds (class specs, dataclasses) and the non-flat parser styles run on the shapes that matter most
QUICK_NESTED_SHAPES = {"List[List[E]]", "Dict[str,List[E]]", "Tuple[List[E],int]", "List[Tuple[List[E],int]]"}
QUICK_NESTED_ELEMS = {"int", "enum", "base"}
QUICK_SLOW_ELEMS = {"base", "dc"}
QUICK_SLOW_SHAPES_FLAT = {"List[E]", "Dict[str,List[E]]", "Optional[List[E]]", "Tuple[List[E],int]", "Tuple[Dict[str,E],int]", "List[Tuple[List[E],int]]"}
QUICK_SLOW_SHAPES_NESTED = {"List[List[E]]", "Tuple[List[E],int]"}
RANDOM_SHAPES: list = []  # thorough tier: filled by main() from the seed before the workers are forked


def random_shape(rng, depth):
    """A random container type of the given depth over the element type E, with its value builder."""
    if depth == 0:
        pick = rng.randrange(2)
        return ("E", lambda E: E, (lambda e: e(0)) if pick == 0 else (lambda e: e(1)))
    ctor = rng.choice(["List", "Dict", "Tuple2", "TupleE", "Optional", "Union"])
    n1, t1, b1 = random_shape(rng, depth - 1)
    if ctor == "List":
        n2, t2, b2 = n1, t1, b1
        return (f"List[{n1}]", lambda E: List[t1(E)], lambda e: [b1(e), b1(e)])
    if ctor == "Dict":
        return (f"Dict[str,{n1}]", lambda E: Dict[str, t1(E)], lambda e: {"k0": b1(e), "k1": b1(e)})
    if ctor == "Tuple2":
        n2, t2, b2 = random_shape(rng, depth - 1)
        return (f"Tuple[{n1},{n2}]", lambda E: Tuple[t1(E), t2(E)], lambda e: (b1(e), b2(e)))
    if ctor == "TupleE":
        return (f"Tuple[{n1},...]", lambda E: Tuple[t1(E), ...], lambda e: (b1(e), b1(e)))
    if ctor == "Optional":
        return (f"Optional[{n1}]", lambda E: Optional[t1(E)], b1)
    return (f"Union[bool,{n1}]", lambda E: Union[bool, t1(E)], b1)
STYLES = ["flat", "group", "subclass", "dataclass", "subcommand", "inner", "nargs"]


def to_json(v):
    if isinstance(v, (list, tuple)):
        return [to_json(x) for x in v]
    if isinstance(v, (set, frozenset)):
        return sorted((to_json(x) for x in v), key=repr)
    if isinstance(v, dict):
        return {str(k): to_json(x) for k, x in v.items()}
    if isinstance(v, Namespace):
        return {k: to_json(x) for k, x in vars(v).items()}
    if isinstance(v, enum.Enum):
        return v.name
    return v


# --------------------------------------------------------------------------------------------------------------------
# deep snapshot / diff  (the oracle)
# --------------------------------------------------------------------------------------------------------------------
class Snap:
    __slots__ = ("obj", "kind", "tname", "children", "leaf")


def kind_of(obj):
    if isinstance(obj, Namespace):
        return "ns"
    if isinstance(obj, dict):
        return "dict"
    if isinstance(obj, list):
        return "list"
    if isinstance(obj, tuple):
        return "tuple"
    if isinstance(obj, (set, frozenset)):
        return "set"
    return "leaf"


def leaf_repr(obj):
    try:
        return (type(obj).__qualname__, repr(obj)[:300])
    except Exception as ex:  # noqa
        return (type(obj).__qualname__, f"<repr failed {type(ex).__name__}>")


def children_of(obj, kind):
    if kind == "ns":
        return list(vars(obj).items())
    if kind == "dict":
        return list(obj.items())
    if kind in ("list", "tuple"):
        return list(enumerate(obj))
    if kind == "set":
        return sorted(((repr(x)[:300], x) for x in obj), key=lambda kv: kv[0])
    return []


def snap(obj, depth=0):
    s = Snap()
    s.obj, s.kind, s.tname = obj, kind_of(obj), type(obj).__name__
    s.leaf, s.children = None, None
    if s.kind == "leaf" or depth > 12:
        s.kind = "leaf"
        s.leaf = leaf_repr(obj)
    else:
        s.children = [(k, snap(v, depth + 1)) for k, v in children_of(obj, s.kind)]
    return s


def _diff_values(s, cur, out):
    """value-and-type comparison only (identity ignored); used to tell a swapped-but-equal container from a changed one"""
    if out:
        return
    if s.kind == "leaf" or kind_of(cur) == "leaf":
        if s.kind != kind_of(cur) or leaf_repr(cur) != s.leaf:
            out.append(1)
        return
    if kind_of(cur) != s.kind or type(cur) is not type(s.obj):
        out.append(1)
        return
    now = children_of(cur, s.kind)
    if [repr(k) for k, _ in now] != [repr(k) for k, _ in s.children]:
        out.append(1)
        return
    for (k, child), (_, v) in zip(s.children, now):
        _diff_values(child, v, out)


def diff(s, cur, chain, out, limit=6):
    """Compare the snapshot `s` with the object `cur` now found at the same place.  Appends (chain, change)."""
    if len(out) >= limit:
        return
    if cur is not s.obj:
        if s.kind == "leaf" and kind_of(cur) == "leaf":
            if leaf_repr(cur) != s.leaf:
                out.append((chain, f"{s.tname}->{type(cur).__name__}"))
        else:
            equal = False
            if s.kind != "leaf" and kind_of(cur) == s.kind and type(cur) is type(s.obj):
                sub = []
                pseudo = snap(s.obj)
                _diff_values(pseudo, cur, sub)
                equal = not sub
            out.append((chain, f"{'replaced-equal' if equal else 'replaced'}:{s.tname}->{type(cur).__name__}"))
        return
    if s.kind == "leaf":
        if leaf_repr(cur) != s.leaf:
            out.append((chain, f"{s.tname}:state"))
        return
    here = f"{chain}.{s.kind}" if chain else s.kind
    now = children_of(cur, s.kind)
    if [k for k, _ in now] != [k for k, _ in s.children]:
        if s.kind in ("list", "tuple"):
            out.append((here, "len"))
        elif s.kind == "set":
            out.append((here, "elements"))
        else:
            old_keys, new_keys = [k for k, _ in s.children], [k for k, _ in now]
            out.append((here, "keys" if sorted(map(repr, old_keys)) != sorted(map(repr, new_keys)) else "key-order"))
        if s.kind == "set":
            return
    now_map = {repr(k): v for k, v in now}
    for k, child in s.children:
        if repr(k) in now_map:
            diff(child, now_map[repr(k)], here, out, limit)


def key_of(out):
    """Canonical, coarse description of the first difference: <direct|below-tuple|below-set>.<kind of the changed container>:<change class>.
    The complete chain and the concrete change are given in the `what` text."""
    chain, change = out[0]
    parts = chain.split(".") if chain else []
    above = parts[:-1]  # the containers strictly above the one whose content changed
    via = "below-tuple" if "tuple" in above else "below-set" if "set" in above else "direct"
    last = parts[-1] if parts else "root"
    head = change.split(":")[0]
    if head in ("replaced", "replaced-equal", "len", "keys", "key-order", "elements"):
        cls = head
    elif change.endswith(":state"):
        cls = "state"
    else:
        cls = "value"
    return f"{via}.{last}:{cls}"


def all_actions(parser, prefix=""):
    for a in parser._actions:
        yield prefix + f"{a.dest}<{type(a).__name__}>", a
        if isinstance(a, _ActionSubCommands):
            for name, sub in a.choices.items():
                yield from all_actions(sub, prefix + name + ".")


class World:
    """Snapshot of everything the statement lists besides the arguments."""

    def __init__(self, parsers):
        self.actions = []
        for n, parser in enumerate(parsers):
            for name, a in all_actions(parser, f"p{n}:" if len(parsers) > 1 else ""):
                self.actions.append((name, a, snap(a.default)))
            self.actions.append((f"p{n}:_defaults" if len(parsers) > 1 else "_defaults", parser, snap(parser._defaults)))
        self.cwd = os.getcwd()
        self.environ = dict(os.environ)
        self.argparse = dict(vars(argparse))
        self.ctx = {k: v.get() for k, v in parser_context_vars.items()}

    def check(self, h, op, what_prefix, case):
        # declared defaults
        out = []
        where = ""
        for name, a, s in self.actions:
            cur = a._defaults if isinstance(a, ArgumentParser) else a.default
            before = len(out)
            diff(s, cur, "", out)
            if len(out) > before and not where:
                where = name
        if out:
            h.check(False, f"c08:mut:{op}:defaults:{key_of(out)}", f"{what_prefix} changed a declared default ({where}): {out[:4]}", case)
        else:
            h.check(True, "", "", None)
        # cwd
        try:
            cwd = os.getcwd()
        except OSError:
            cwd = "<gone>"
        h.check(cwd == self.cwd, f"c08:mut:{op}:cwd", f"{what_prefix} left the working directory changed", case)
        if cwd != self.cwd:
            os.chdir(self.cwd)
        # environ
        env_now = dict(os.environ)
        if env_now != self.environ:
            changed = sorted(set(env_now.items()) ^ set(self.environ.items()))[:4]
            h.check(False, f"c08:mut:{op}:environ:{changed[0][0]}", f"{what_prefix} changed os.environ: {changed}", case)
            os.environ.clear()
            os.environ.update(self.environ)
        else:
            h.check(True, "", "", None)
        # argparse module
        now = vars(argparse)
        changed = sorted(k for k in set(now) | set(self.argparse) if now.get(k, None) is not self.argparse.get(k, None))
        h.check(not changed, f"c08:mut:{op}:argparse:{changed[0] if changed else ''}", f"{what_prefix} left the argparse module changed: {changed}", case)
        for k in changed:
            if k in self.argparse:
                setattr(argparse, k, self.argparse[k])
            else:
                delattr(argparse, k)
        # parser context variables: not named by the statement -> a note, not a violation
        for k, v in parser_context_vars.items():
            if v.get() is not self.ctx[k] and v.get() != self.ctx[k]:
                h.note(f"context variable {k} differs after {op}: {what_prefix}")
                v.set(self.ctx[k])


STATS: Dict[str, Dict[str, int]] = {}


def observe(h, op, parser, fn, args, case, extra_parsers=()):
    """Run fn() = one public call; check every argument in `args` (name -> object) and the world against their snapshots."""
    before = {name: snap(obj) for name, obj in args.items()}
    world = World([parser, *extra_parsers])
    res = outcome(fn)
    STATS.setdefault(op, {"ok": 0, "exc": 0, "exit": 0})[res[0]] += 1
    what_prefix = f"{op} ({res[0]}{':' + str(res[1]) if res[0] != 'ok' else ''})"
    for name, s in before.items():
        out = []
        diff(s, args[name], "", out)
        if out:
            h.check(False, f"c08:mut:{op}:{name}:{key_of(out)}", f"{what_prefix} changed its argument `{name}`: {out[:4]}", case)
        else:
            h.check(True, "", "", None)
    world.check(h, op, what_prefix, case)
    return res


# --------------------------------------------------------------------------------------------------------------------
# parsers of the grammar
# --------------------------------------------------------------------------------------------------------------------
def fresh_class(name, T, default_d):
    """class <name>: __init__(self, v: T = None, d: T = default_d) - created anew for every parser"""

    def __init__(self, v=None, d=default_d):
        self.v, self.d = v, d
        LOG.append(self)

    __init__.__annotations__ = {"v": Optional[T], "d": T}
    cls = type(name, (), {"__init__": __init__, "__module__": M, "__qualname__": name})
    globals()[name] = cls
    if M != "__main__":
        setattr(sys.modules[M], name, cls)
    return cls


def fresh_dataclass(name, T, mk_default_d):
    cls = dataclasses.make_dataclass(
        name, [("v", Optional[T], dataclasses.field(default=None)), ("d", T, dataclasses.field(default_factory=mk_default_d))]
    )
    cls.__module__, cls.__qualname__ = M, name
    globals()[name] = cls
    return cls


class Spec:
    """One parser of the grammar: how to build it, how to wrap a value for it, where the value ends up."""

    def __init__(self, style, T, mk_conv, mk_canon, E=None):
        self.style, self.T, self.mk_conv, self.mk_canon, self.E = style, T, mk_conv, mk_canon, E
        self.key = {"flat": "v", "group": "g.v", "subclass": "k.init_args.v", "dataclass": "g.v", "subcommand": "sub.v", "inner": "g.v", "nargs": "v"}[style]

    def describe(self, tname):
        conv = str(to_json(self.mk_conv()))[:160]
        head = "ArgumentParser(exit_on_error=False, env_prefix='APP'); --cfg ActionConfigFile; "
        return head + {
            "flat": f"--v: {tname}; --d: {tname} = <conv value {conv} (tuples/sets as such)>" + ("; --c: same type, default = canonical value" if self.mk_canon else ""),
            "group": f"add_class_arguments(KGroup, 'g') with KGroup.__init__(self, v: Optional[{tname}] = None, d: {tname} = <conv value {conv}>)",
            "subclass": f"--k: KSub = {{class_path: KSub}} with KSub.__init__(self, v: Optional[{tname}] = None, d: {tname} = <conv value {conv}>)",
            "dataclass": f"--g: KData = KData() with dataclass KData(v: Optional[{tname}] = None, d: {tname} = field(default_factory=<conv value {conv}>))",
            "subcommand": f"subcommands(required=False): sub(--v: {tname}; --d: {tname} = <conv value {conv}>), other(--w: int = 0)",
            "inner": f"--g = ActionParser(inner) with inner(--v: {tname}; --d: {tname} = <conv value {conv}>)",
            "nargs": f"add_argument('--v', type=<element type of {tname}>, nargs='+'); add_argument('--d', same, default={conv})",
        }[self.style]

    def build(self):
        T = self.T
        p = ArgumentParser(exit_on_error=False, env_prefix="APP", default_env=False)
        p.add_argument("--cfg", action=ActionConfigFile)
        if self.style == "flat":
            p.add_argument("--v", type=T)
            p.add_argument("--d", type=T, default=self.mk_conv())
            if self.mk_canon:
                p.add_argument("--c", type=T, default=self.mk_canon())
        elif self.style == "group":
            p.add_class_arguments(fresh_class("KGroup", T, self.mk_conv()), "g")
        elif self.style == "subclass":
            cls = fresh_class("KSub", T, self.mk_conv())
            p.add_argument("--k", type=cls, default={"class_path": f"{M}.KSub"})
        elif self.style == "dataclass":
            p.add_argument("--g", type=fresh_dataclass("KData", T, self.mk_conv), default=globals()["KData"]())
        elif self.style == "subcommand":
            sub = ArgumentParser(exit_on_error=False)
            sub.add_argument("--v", type=T)
            sub.add_argument("--d", type=T, default=self.mk_conv())
            other = ArgumentParser(exit_on_error=False)
            other.add_argument("--w", type=int, default=0)
            sc = p.add_subcommands(required=False)
            sc.add_subcommand("sub", sub)
            sc.add_subcommand("other", other)
        elif self.style == "inner":
            inner = ArgumentParser(exit_on_error=False)
            inner.add_argument("--v", type=T)
            inner.add_argument("--d", type=T, default=self.mk_conv())
            p.add_argument("--g", action=ActionParser(parser=inner))
        elif self.style == "nargs":
            p.add_argument("--v", type=self.E, nargs="+")
            p.add_argument("--d", type=self.E, nargs="+", default=self.mk_conv())
        return p

    def wrap(self, val, ns=False):
        mk = (lambda **kw: Namespace(**kw)) if ns else (lambda **kw: dict(**kw))
        if self.style in ("flat", "nargs"):
            return mk(v=val)
        if self.style in ("group", "dataclass", "inner"):
            return mk(g=mk(v=val))
        if self.style == "subclass":
            return mk(k=mk(class_path=f"{M}.KSub", init_args=mk(v=val)))
        return mk(subcommand="sub", sub=mk(v=val))

    def argv(self, val):
        js = json.dumps(to_json(val))
        if self.style == "subcommand":
            return ["sub", "--v", js]
        if self.style == "subclass":
            return [f"--k={M}.KSub", f"--k.init_args.v={js}"]
        if self.style == "nargs":
            return ["--v"] + [str(x) for x in to_json(val)]
        return [f"--{self.key}={js}"]


# --------------------------------------------------------------------------------------------------------------------
def raw_ops(h, spec, mkval, case, tmp):
    """Operations applied directly to caller-built (unparsed) values."""
    P = spec.build

    def run(op, parser, fn, args, extra=()):
        return observe(h, op, parser, fn, args, {**case, "op": op}, extra)

    p, obj = P(), spec.wrap(mkval())
    run("parse_object", p, lambda: p.parse_object(obj), {"cfg_obj": obj})
    p, obj = P(), spec.wrap(mkval(), ns=True)
    run("parse_object", p, lambda: p.parse_object(obj), {"cfg_obj": obj})
    p, obj, base = P(), {}, spec.wrap(mkval(), ns=True)
    run("parse_object", p, lambda: p.parse_object(obj, cfg_base=base), {"cfg_obj": obj, "cfg_base": base})
    p, argv = P(), spec.argv(mkval())
    run("parse_args", p, lambda: p.parse_args(argv), {"args": argv})
    p, argv, ns = P(), [], spec.wrap(mkval(), ns=True)
    run("parse_args", p, lambda: p.parse_args(argv, namespace=ns), {"args": argv, "namespace": ns})
    doc = json.dumps(to_json(spec.wrap(mkval())))
    p = P()
    run("parse_string", p, lambda: p.parse_string(doc), {})
    path = os.path.join(tmp, "in", "doc.json")
    with open(path, "w") as f:
        f.write(doc)
    p = P()
    run("parse_path", p, lambda: p.parse_path(path), {})
    p, argv = P(), ["--cfg", path]
    run("parse_args", p, lambda: p.parse_args(argv), {"args": argv})
    if spec.style in ("flat", "group", "dataclass", "inner", "nargs"):
        env_name = "APP_V" if spec.style in ("flat", "nargs") else "APP_G__V"
        p, env = P(), {env_name: json.dumps(to_json(mkval())), "HOME": "/nonexistent"}
        run("parse_env", p, lambda: p.parse_env(env), {"env": env})
        p = P()
        os.environ[env_name] = json.dumps(to_json(mkval()))
        try:
            run("parse_args", p, lambda: p.parse_args([], env=True), {})
        finally:
            os.environ.pop(env_name, None)
    p, cfg = P(), spec.wrap(mkval(), ns=True)
    run("validate", p, lambda: p.validate(cfg), {"cfg": cfg})
    p, cfg = P(), spec.wrap(mkval(), ns=True)
    run("dump", p, lambda: p.dump(cfg), {"cfg": cfg})
    p, cfg = P(), spec.wrap(mkval(), ns=True)
    run("dump", p, lambda: p.dump(cfg, skip_validation=True, format="json"), {"cfg": cfg})
    p, cfg = P(), spec.wrap(mkval(), ns=True)
    run("dump", p, lambda: p.dump(cfg, skip_default=True, skip_none=False), {"cfg": cfg})
    for multifile in (False, True):
        p, cfg = P(), spec.wrap(mkval(), ns=True)
        out = os.path.join(tmp, "out", "saved.yaml")
        run("save", p, lambda: p.save(cfg, out, overwrite=True, multifile=multifile), {"cfg": cfg})
    p, a, b = P(), spec.wrap(mkval(), ns=True), spec.wrap(mkval(), ns=True)
    run("merge_config", p, lambda: p.merge_config(a, b), {"cfg_from": a, "cfg_to": b})
    p, cfg = P(), spec.wrap(mkval(), ns=True)
    cfg["unknown"] = [[1], (2, [3])]
    run("strip_unknown", p, lambda: p.strip_unknown(cfg), {"cfg": cfg})
    p, cfg = P(), spec.wrap(mkval(), ns=True)
    run("instantiate_classes", p, lambda: p.instantiate_classes(cfg), {"cfg": cfg})


DERIVED_OPS = ["validate", "dump", "dump-json-skip_default", "save", "save-single", "merge_config", "merge_config-rev", "strip_unknown",
               "instantiate_classes", "parse_object", "parse_args-namespace"]


def derived_ops(h, spec, sources, case, tmp):
    """Operations applied to configurations that came out of the parser itself (the usual work flow)."""
    for src_name, mk_cfg in sources:
        for op in DERIVED_OPS:
            p = spec.build()
            r = outcome(mk_cfg, p)
            if r[0] != "ok":
                break  # this source gives no configuration for this parser (e.g. rejected defaults)
            cfg = r[1]
            c = {**case, "op": op, "cfg_from": src_name}
            if op == "validate":
                observe(h, "validate", p, lambda: p.validate(cfg), {"cfg": cfg}, c)
            elif op == "dump":
                observe(h, "dump", p, lambda: p.dump(cfg), {"cfg": cfg}, c)
            elif op == "dump-json-skip_default":
                observe(h, "dump", p, lambda: p.dump(cfg, format="json", skip_default=True), {"cfg": cfg}, c)
            elif op in ("save", "save-single"):
                out = os.path.join(tmp, "out", "saved.yaml")
                observe(h, "save", p, lambda: p.save(cfg, out, overwrite=True, multifile=op == "save"), {"cfg": cfg}, c)
            elif op in ("merge_config", "merge_config-rev"):
                r2 = outcome(p.get_defaults)
                if r2[0] != "ok":
                    continue
                a, b = (cfg, r2[1]) if op == "merge_config" else (r2[1], cfg)
                observe(h, "merge_config", p, lambda: p.merge_config(a, b), {"cfg_from": a, "cfg_to": b}, c)
            elif op == "strip_unknown":
                observe(h, "strip_unknown", p, lambda: p.strip_unknown(cfg), {"cfg": cfg}, c)
            elif op == "instantiate_classes":
                observe(h, "instantiate_classes", p, lambda: p.instantiate_classes(cfg), {"cfg": cfg}, c)
            elif op == "parse_object":
                observe(h, "parse_object", p, lambda: p.parse_object(cfg), {"cfg_obj": cfg}, c)
            elif op == "parse_args-namespace":
                argv = []
                observe(h, "parse_args", p, lambda: p.parse_args(argv, namespace=cfg), {"args": argv, "namespace": cfg}, c)
    # operations without arguments: only the world can change
    for op in ("get_defaults", "format_help", "parse_args-empty", "parse_args-help", "parse_args-print_config", "parse_args-unknown"):
        p = spec.build()
        c = {**case, "op": op}
        if op == "get_defaults":
            observe(h, "get_defaults", p, p.get_defaults, {}, c)
        elif op == "format_help":
            observe(h, "format_help", p, p.format_help, {}, c)
        else:
            argv = {"parse_args-empty": [], "parse_args-help": ["--help"], "parse_args-print_config": ["--print_config"],
                    "parse_args-unknown": ["--nope=1"]}[op]
            observe(h, "parse_args", p, lambda: p.parse_args(argv), {"args": argv}, c)


def workflow(h, spec, mk_conv, mk_bad, case, tmp):
    """Histories and fault sequences: the usual chain of calls on ONE parser and ONE configuration, with failing calls in between;
    every call is observed against the state it found (so an earlier change is not blamed on a later call)."""
    p = spec.build()
    r = outcome(p.parse_args, spec.argv(mk_conv()))
    if r[0] != "ok":
        return
    cfg = r[1]
    out = os.path.join(tmp, "out", "flow.yaml")
    bad = spec.wrap(mk_bad())
    state = {"defaults": Namespace()}

    def get_defaults():
        state["defaults"] = p.get_defaults()

    steps = [  # (operation, call, its arguments at the time of the call)
        ("validate", lambda: p.validate(cfg), lambda: {"cfg": cfg}),
        ("dump", lambda: p.dump(cfg), lambda: {"cfg": cfg}),
        ("parse_object", lambda: p.parse_object(bad), lambda: {"cfg_obj": bad}),  # a failing parse in between
        ("instantiate_classes", lambda: p.instantiate_classes(cfg), lambda: {"cfg": cfg}),
        ("dump", lambda: p.dump(cfg, skip_default=True, format="json"), lambda: {"cfg": cfg}),
        ("parse_args", lambda: p.parse_args(["--nope"]), lambda: {}),
        ("save", lambda: p.save(cfg, out, overwrite=True), lambda: {"cfg": cfg}),
        ("parse_object", lambda: p.parse_object(cfg), lambda: {"cfg_obj": cfg}),
        ("parse_args", lambda: p.parse_args(["--print_config"], namespace=cfg), lambda: {"namespace": cfg}),
        ("get_defaults", get_defaults, lambda: {}),
        ("merge_config", lambda: p.merge_config(cfg, state["defaults"]), lambda: {"cfg_from": cfg, "cfg_to": state["defaults"]}),
        ("instantiate_classes", lambda: p.instantiate_classes(cfg), lambda: {"cfg": cfg}),
        ("format_help", p.format_help, lambda: {}),
        ("validate", lambda: p.validate(cfg), lambda: {"cfg": cfg}),
    ]
    for n, (op, fn, args) in enumerate(steps):
        observe(h, op, p, fn, args(), {**case, "op": op, "workflow_step": n, "workflow": [s[0] for s in steps[:n + 1]]})


# --------------------------------------------------------------------------------------------------------------------
# second clause: instantiate twice
# --------------------------------------------------------------------------------------------------------------------
def is_spec(x):
    return kind_of(x) in ("ns", "dict") and "class_path" in (vars(x) if kind_of(x) == "ns" else x)


def structure_copy(x):
    """copy of the containers only (the reference picture of the configuration, immune to later in-place changes)"""
    k = kind_of(x)
    if k == "ns":
        n = Namespace()
        for key, v in vars(x).items():
            vars(n)[key] = structure_copy(v)
        return n
    if k == "dict":
        return {key: structure_copy(v) for key, v in x.items()}
    if k in ("list", "tuple"):
        return type(x)(structure_copy(v) for v in x) if k == "list" else tuple(structure_copy(v) for v in x)
    return x


MISSING = object()


def child(res, key):
    """what the result holds where the configuration holds `key`"""
    if res is MISSING:
        return MISSING
    k = kind_of(res)
    try:
        if k == "ns":
            return vars(res).get(key, MISSING)
        if k == "dict":
            return res.get(key, MISSING)
        if k in ("list", "tuple"):
            return res[key] if isinstance(key, int) and key < len(res) else MISSING
        return getattr(res, str(key).lstrip("\u200b"), MISSING)  # an instance: constructor parameter `key` is stored as attribute `key`
    except Exception:  # noqa
        return MISSING


def spec_objects(cfg, res, path, out):
    """Pairs (path, object) for every class spec in the configuration picture `cfg`: the object that `res` holds at that place."""
    k = kind_of(cfg)
    if is_spec(cfg):
        out.append((path, res))
        init = (vars(cfg) if k == "ns" else cfg).get("init_args")
        if kind_of(init) in ("ns", "dict"):
            for key, v in (vars(init) if kind_of(init) == "ns" else init).items():
                spec_objects(v, child(res, key), f"{path}.{str(key).lstrip(chr(0x200b))}", out)
    elif k in ("ns", "dict"):
        for key, v in (vars(cfg) if k == "ns" else cfg).items():
            spec_objects(v, child(res, key), f"{path}.{str(key).lstrip(chr(0x200b))}" if path else str(key), out)
    elif k in ("list", "tuple"):
        for n, v in enumerate(cfg):
            spec_objects(v, child(res, n), f"{path}[{n}]", out)


def placements():
    """(name, build parser, number of class groups, inputs: list of (source name, argv or object or None))"""
    sub = {"class_path": f"{M}.Sub", "init_args": {"x": 3}}
    hold = {"class_path": f"{M}.Holder", "init_args": {"inner": sub}}
    out = []

    def add(name, adder, groups, inputs):
        def build():
            p = ArgumentParser(exit_on_error=False)
            adder(p)
            return p
        out.append((name, build, groups, inputs))

    add("arg", lambda p: p.add_argument("--b", type=Base), 0, [{"b": sub}, {"b": f"{M}.Base"}])
    add("arg-default-dict", lambda p: p.add_argument("--b", type=Base, default={"class_path": f"{M}.Sub", "init_args": {"x": 2}}), 0, [None, {"b": {"init_args": {"x": 9}}}])
    add("arg-default-lazy", lambda p: p.add_argument("--b", type=Base, default=lazy_instance(Sub, x=4)), 0, [None, {"b": sub}])
    add("optional", lambda p: p.add_argument("--b", type=Optional[Base]), 0, [{"b": sub}])
    add("union", lambda p: p.add_argument("--b", type=Union[int, Base]), 0, [{"b": sub}])
    add("list", lambda p: p.add_argument("--b", type=List[Base]), 0, [{"b": [sub, f"{M}.Base"]}])
    add("list-default", lambda p: p.add_argument("--b", type=List[Base], default=[lazy_instance(Sub, x=4)]), 0, [None])
    add("dict", lambda p: p.add_argument("--b", type=Dict[str, Base]), 0, [{"b": {"one": sub, "two": sub}}])
    add("tuple", lambda p: p.add_argument("--b", type=Tuple[Base, int]), 0, [{"b": (sub, 1)}, {"b": [sub, 1]}])
    add("tuple-of-list", lambda p: p.add_argument("--b", type=Tuple[List[Base], int]), 0, [{"b": ([sub, sub], 1)}])
    add("tuple-of-dict", lambda p: p.add_argument("--b", type=Tuple[Dict[str, Base], int]), 0, [{"b": ({"one": sub}, 1)}])
    add("list-of-tuple", lambda p: p.add_argument("--b", type=List[Tuple[Base, int]]), 0, [{"b": [(sub, 1), (sub, 2)]}])
    add("tuple-ellipsis", lambda p: p.add_argument("--b", type=Tuple[Base, ...]), 0, [{"b": (sub, sub)}])
    add("nested-spec", lambda p: p.add_argument("--h", type=Holder), 0, [{"h": hold}, {"h": f"{M}.Holder"}])
    add("nested-signature-default", lambda p: p.add_argument("--h", type=Holder, default=lazy_instance(Holder, n=1)), 0, [None, {"h": {"init_args": {"n": 2}}}])
    add("group-signature-default", lambda p: p.add_class_arguments(Holder, "g"), 1, [None, {"g": {"inner": sub}}, {"g": {"n": 3}}])
    add("group-list", lambda p: p.add_class_arguments(Many, "g"), 1, [{"g": {"many": [sub, sub], "opt": sub, "pair": (sub, 1)}}])
    add("subclass-many", lambda p: p.add_subclass_arguments(Many, "m"), 0,
        [{"m": {"class_path": f"{M}.Many", "init_args": {"many": [sub], "opt": sub, "pair": (sub, 2)}}}])
    add("dataclass-default-factory", lambda p: p.add_argument("--d", type=DHolder, default=DHolder()), 0, [None, {"d": {"inner": sub}}])
    add("dataclass-group", lambda p: p.add_class_arguments(DHolder, "d"), 0, [None])

    def subcommands(p):
        s = ArgumentParser(exit_on_error=False)
        s.add_argument("--b", type=Base, default=lazy_instance(Sub, x=8))
        s.add_argument("--t", type=Optional[Tuple[List[Base], int]])
        p.add_subcommands().add_subcommand("run", s)

    add("subcommand", subcommands, 0, [{"subcommand": "run"}, {"subcommand": "run", "run": {"t": ([sub], 1)}}])
    return out


class EK:
    def __init__(self, x: int = 1):
        self.x = x


def empty_config_cases(h):
    """A configuration that happens to be empty (or to hold only empty branches) is an argument like any other: instantiate_classes,
    dump, validate on a parser with class groups leave it as it was and do not return the very object."""
    for style in ("class-group", "subclass-argument-with-default", "nested-class-group"):
        for cname, make in (("Namespace()", lambda: Namespace()), ("Namespace(k=Namespace())", lambda: Namespace(k=Namespace()))):
            p = ArgumentParser(exit_on_error=False)
            if style == "class-group":
                p.add_class_arguments(EK, "k")
            elif style == "nested-class-group":
                p.add_class_arguments(EK, "g.k")
            else:
                p.add_subclass_arguments(EK, "k", default={"class_path": f"{__name__}.EK"})
            for op, fn in (("instantiate_classes", lambda c: p.instantiate_classes(c)), ("dump", lambda c: p.dump(c)), ("validate", lambda c: p.validate(c))):
                cfg = make()
                case = {"parser": style + " of class EK(x: int = 1)", "configuration": cname, "call": op}
                res = observe(h, op, p, lambda: fn(cfg), {"cfg": cfg}, case)
                if op == "instantiate_classes" and res[0] == "ok":
                    h.check(res[1] is not cfg, f"c08:same-object:{op}:{style}:{cname}", "the result is the very object that was given (what is built later is written into the caller's configuration)", case)
                h.nontrivial(("empty-config", style, cname, op))


def instantiate_twice(h):
    for name, build, groups, inputs in placements():
        for n_in, inp in enumerate(inputs):
            for source in ("parse_object", "parse_args", "get_defaults"):
                if source == "get_defaults" and inp is not None:
                    continue
                p = build()
                if source == "parse_object":
                    r = outcome(p.parse_object, copy.deepcopy(inp) if inp is not None else {})
                elif source == "parse_args":
                    argv = []
                    for k, v in (inp or {}).items():
                        if k == "subcommand":
                            argv.insert(0, v)
                        elif isinstance(v, dict) and name in ("subcommand", "group-signature-default", "group-list") and k in ("run", "g"):
                            argv += [f"--{k2}={json.dumps(to_json(v2))}" if k != "g" else f"--g.{k2}={json.dumps(to_json(v2))}" for k2, v2 in v.items()]
                        else:
                            argv.append(f"--{k}={json.dumps(to_json(v)) if not isinstance(v, str) else v}")
                    r = outcome(p.parse_args, argv)
                else:
                    r = outcome(p.get_defaults)
                key = f"c08:inst2:{name}:{source}{n_in}"
                case = {"placement": name, "source": source, "input": to_json(inp), "module": M}
                if r[0] != "ok":
                    h.note(f"{key}: configuration not accepted: {r[1:]}")
                    continue
                cfg = r[1]
                picture = structure_copy(cfg)  # the configuration as given, before any call
                results, segments = [], []
                for call in (1, 2):
                    start = len(LOG)
                    res = observe(h, "instantiate_classes", p, lambda: p.instantiate_classes(cfg), {"cfg": cfg}, {**case, "call": call})
                    results.append(res)
                    segments.append(LOG[start:])
                if results[0][0] != "ok" or results[1][0] != "ok":
                    h.note(f"{key}: instantiate_classes failed: {results[0][:2]} / {results[1][:2]}")
                    continue
                objs = []
                for res in results:
                    found = []
                    spec_objects(picture, res[1], "", found)
                    objs.append(found)
                if not objs[0]:
                    h.note(f"{key}: configuration holds no class spec (live default instance?): {str(cfg)[:120]}")
                    continue
                for (path, o1), (_, o2) in zip(objs[0], objs[1]):
                    built = [o is not MISSING and not is_spec(o) and not isinstance(o, str) for o in (o1, o2)]
                    h.check(all(built), f"{key}:{path}:not-built", f"the class spec at {path} was not turned into an object: {type(o1).__name__} / {type(o2).__name__}", case)
                    if not all(built):
                        continue
                    h.check(o1 is not o2, f"{key}:{path}:same-object", f"both instantiate_classes calls returned the same {type(o1).__name__} object for the spec at {path}", case)
                    fresh = [any(o is b for b in seg) for o, seg in zip((o1, o2), segments)]
                    h.check(all(fresh), f"{key}:{path}:not-fresh", f"the object for the spec at {path} was not constructed by the call that returned it: fresh={fresh}", case)
                h.nontrivial(("inst2", name, source, n_in))
                del LOG[:]


# --------------------------------------------------------------------------------------------------------------------
# cwd / environ / argparse on paths that change them temporarily
# --------------------------------------------------------------------------------------------------------------------
def world_cases(h, tmp):
    d = os.path.join(tmp, "w")
    os.makedirs(os.path.join(d, "conf", "deep"))
    os.makedirs(os.path.join(d, "outdir"))

    def write(rel, text):
        with open(os.path.join(d, rel), "w") as f:
            f.write(text)

    write("conf/data.txt", "hello")
    write("conf/good.yaml", "file: data.txt\nnum: 1\n")
    write("conf/missing.yaml", "file: nothere.txt\nnum: 1\n")
    write("conf/badnum.yaml", "file: data.txt\nnum: x\n")
    write("conf/syntax.yaml", "file: [data.txt\n")
    write("conf/unknown.yaml", "file: data.txt\nzzz: 1\n")
    write("conf/model.yaml", f"class_path: {M}.Sub\ninit_args:\n  x: 2\n")
    write("conf/badmodel.yaml", f"class_path: {M}.Sub\ninit_args:\n  x: notint\n")
    write("conf/outer.yaml", "model: model.yaml\n")
    write("conf/outerbad.yaml", "model: badmodel.yaml\n")
    write("conf/deep/inner.yaml", "file: ../data.txt\n")
    write("conf/chain.yaml", "cfg: deep/inner.yaml\n")
    write("conf/nums.txt", "1\n2\n")
    write("conf/badnums.txt", "1\nx\n")
    write("conf/point.yaml", "x: 1\nys: [2]\n")

    def build(exit_on_error=False, default_config=None, env=False):
        p = ArgumentParser(exit_on_error=exit_on_error, default_config_files=default_config, default_env=env, env_prefix="WAPP", version="1.0")
        p.add_argument("--cfg", action=ActionConfigFile)
        p.add_argument("--file", type=Optional[Path_fr])
        p.add_argument("--num", type=int, default=0)
        p.add_argument("--model", type=Optional[Base], enable_path=True)
        p.add_argument("--nums", type=Optional[List[int]], enable_path=True)
        p.add_argument("--point", type=Point)
        return p

    conf = os.path.join(d, "conf")
    cases = [
        ("cfg-good", {}, ["--cfg", f"{conf}/good.yaml"]),
        ("cfg-missing-relative-file", {}, ["--cfg", f"{conf}/missing.yaml"]),
        ("cfg-bad-value-after-path", {}, ["--cfg", f"{conf}/badnum.yaml"]),
        ("cfg-syntax-error", {}, ["--cfg", f"{conf}/syntax.yaml"]),
        ("cfg-unknown-key", {}, ["--cfg", f"{conf}/unknown.yaml"]),
        ("cfg-nonexistent", {}, ["--cfg", f"{conf}/nope.yaml"]),
        ("cfg-nested-cfg", {}, ["--cfg", f"{conf}/chain.yaml"]),
        ("model-from-file", {}, ["--model", f"{conf}/model.yaml"]),
        ("model-from-bad-file", {}, ["--model", f"{conf}/badmodel.yaml"]),
        ("cfg-model-from-file", {}, ["--cfg", f"{conf}/outer.yaml"]),
        ("cfg-model-from-bad-file", {}, ["--cfg", f"{conf}/outerbad.yaml"]),
        ("list-from-file", {}, ["--nums", f"{conf}/nums.txt"]),
        ("list-from-bad-file", {}, ["--nums", f"{conf}/badnums.txt"]),
        ("dataclass-from-file", {}, ["--point", f"{conf}/point.yaml"]),
        ("help", {}, ["--help"]),
        ("help-exit_on_error", {"exit_on_error": True}, ["--help"]),
        ("version", {}, ["--version"]),
        ("print_config", {}, ["--cfg", f"{conf}/good.yaml", "--print_config"]),
        ("unknown-exit_on_error", {"exit_on_error": True}, ["--nope"]),
        ("bad-value-exit_on_error", {"exit_on_error": True}, ["--num=x"]),
        ("cfg-missing-exit_on_error", {"exit_on_error": True}, ["--cfg", f"{conf}/missing.yaml"]),
        ("default-config-good", {"default_config": [f"{conf}/good.yaml"]}, []),
        ("default-config-missing-file", {"default_config": [f"{conf}/missing.yaml"]}, []),
        ("default-config-bad-value", {"default_config": [f"{conf}/badnum.yaml"]}, []),
        ("default-config-two", {"default_config": [f"{conf}/good.yaml", f"{conf}/unknown.yaml"]}, ["--num=2"]),
    ]
    for name, kw, argv in cases:
        for op in ("parse_args", "get_defaults", "format_help"):
            if op != "parse_args" and "default_config" not in kw:
                continue
            p = build(**kw)
            case = {"world-case": name, "parser": f"world_cases.build({kw}): --cfg ActionConfigFile, --file Optional[Path_fr], --num int, --model Optional[Base] enable_path, --nums Optional[List[int]] enable_path, --point Point(dataclass)", "argv": [a.replace(d, "<tmp>") for a in argv]}
            a = list(argv)
            fn = {"parse_args": lambda: p.parse_args(a), "get_defaults": p.get_defaults, "format_help": p.format_help}[op]
            observe(h, op, p, fn, {"args": a} if op == "parse_args" else {}, case)
            h.nontrivial(("world", name, op))
    # parse_path / parse_string / parse_env / os.environ
    for name in ("good", "missing", "badnum", "syntax", "nope", "outer", "outerbad"):
        p = build()
        path = f"{conf}/{name}.yaml"
        observe(h, "parse_path", p, lambda: p.parse_path(path), {}, {"world-case": "parse_path:" + name})
        h.nontrivial(("world", "parse_path", name))
    os.environ["WAPP_NUM"] = "5"
    os.environ["WAPP_CFG"] = f"{conf}/good.yaml"
    try:
        for name, env in (("environ", None), ("env-dict-good", {"WAPP_NUM": "3", "WAPP_CFG": f"{conf}/good.yaml"}), ("env-dict-bad", {"WAPP_NUM": "x"}),
                          ("env-dict-bad-cfg", {"WAPP_CFG": f"{conf}/missing.yaml"})):
            p = build()
            observe(h, "parse_env", p, lambda: p.parse_env(env), {"env": env} if env is not None else {}, {"world-case": "parse_env:" + name})
            p = build(env=True)
            argv = ["--num=7"]
            observe(h, "parse_args", p, lambda: p.parse_args(argv), {"args": argv}, {"world-case": "default_env+parse_args:" + name})
            h.nontrivial(("world", "env", name))
        os.environ["WAPP_CFG"] = f"{conf}/badnum.yaml"
        p = build(env=True)
        observe(h, "parse_args", p, lambda: p.parse_args([]), {}, {"world-case": "default_env bad cfg in environ"})
        p = build()
        observe(h, "parse_env", p, p.parse_env, {}, {"world-case": "parse_env bad cfg in environ"})
    finally:
        os.environ.pop("WAPP_NUM", None)
        os.environ.pop("WAPP_CFG", None)
    # save: multifile with __path__ metas into another directory; refusing to overwrite midway
    for name, prep, overwrite in (("save-multifile", None, True), ("save-multifile-refuse-inner", "model.yaml", False), ("save-refuse-outer", "saved.yaml", False)):
        p = build()
        r = outcome(p.parse_args, ["--cfg", f"{conf}/outer.yaml", "--file", f"{conf}/data.txt"], with_meta=True)
        if r[0] != "ok":
            h.note(f"world save case {name}: setup parse failed {r[1:]}")
            continue
        cfg = r[1]
        outdir = os.path.join(d, "outdir", name)
        os.makedirs(outdir)
        if prep:
            with open(os.path.join(outdir, prep), "w") as f:
                f.write("old")
        out = os.path.join(outdir, "saved.yaml")
        observe(h, "save", p, lambda: p.save(cfg, out, overwrite=overwrite), {"cfg": cfg}, {"world-case": name})
        h.nontrivial(("world", name))


# --------------------------------------------------------------------------------------------------------------------
class Rec:
    """What a worker process records; merged into the Harness in a fixed order (same API as Harness for check/nontrivial/note)."""

    def __init__(self, thorough):
        self.thorough, self.evaluations, self.violations, self.keys, self.distinct, self.notes = thorough, 0, [], set(), [], []

    def check(self, ok, key, what="", case=None):
        self.evaluations += 1
        if not ok and key not in self.keys:
            self.keys.add(key)
            self.violations.append((key, what, case))
        return ok

    def nontrivial(self, sig):
        self.distinct.append(sig)

    def note(self, txt):
        self.notes.append(re.sub(r"0x[0-9a-f]+", "0x..", txt))


def grid_unit(h, style, shape, tmp):
    sname, styp, sbuild, need_hashable = shape
    for ename, el in ELEMS.items():
        if need_hashable and not el["hashable"]:
            continue
        if style == "nargs" and (sname != "List[E]" or ename not in ("int", "float", "enum")):
            continue
        if not h.thorough and style != "nargs":
            if style != "flat" and (sname not in QUICK_NESTED_SHAPES or ename not in QUICK_NESTED_ELEMS):
                continue
            if ename in QUICK_SLOW_ELEMS and sname not in (QUICK_SLOW_SHAPES_FLAT if style == "flat" else QUICK_SLOW_SHAPES_NESTED):
                continue
        T = styp(el["T"])

        def maker(kind, el=el):
            return lambda: sbuild(lambda i: copy.deepcopy(el[kind][i]))

        spec = Spec(style, T, maker("conv"), maker("canon") if "canon" in el else None, E=el["T"])
        tname = sname.replace("E", ename)
        base_case = {"style": style, "type": tname, "parser": spec.describe(tname), "input_wrapping": str(to_json(spec.wrap("<value>"))), "module": M}
        for kind in ("canon", "conv", "bad"):
            if kind not in el:
                continue
            raw_ops(h, spec, maker(kind), {**base_case, "value_kind": kind, "value": to_json(maker(kind)())}, tmp)
            h.nontrivial((style, sname, ename, kind))
        sources = [("parse_object(conv)", lambda p, mk=maker("conv"): p.parse_object(spec.wrap(mk()))),
                   ("parse_args(conv)", lambda p, mk=maker("conv"): p.parse_args(spec.argv(mk()))),
                   ("parse_args([])", lambda p: p.parse_args(["sub"] if style == "subcommand" else [])),
                   ("get_defaults()", lambda p: p.get_defaults())]
        derived_ops(h, spec, sources, {**base_case, "value_kind": "derived", "value": to_json(maker("conv")())}, tmp)
        h.nontrivial((style, sname, ename, "derived"))
        workflow(h, spec, maker("conv"), maker("bad"), {**base_case, "value_kind": "workflow on one parser, cfg = parse_args(conv value)",
                                                        "value": to_json(maker("conv")())}, tmp)
        h.nontrivial((style, sname, ename, "workflow"))
        del LOG[:]


def work(unit):
    """Runs in a worker process (fork): one unit of the enumeration in its own temporary directory / cwd."""
    thorough, what = unit[0], unit[1]
    rec = Rec(thorough)
    STATS.clear()
    del LOG[:]
    cwd0, env0 = os.getcwd(), dict(os.environ)
    with tempfile.TemporaryDirectory() as tmp:
        tmp = os.path.realpath(tmp)
        os.makedirs(os.path.join(tmp, "in"))
        os.makedirs(os.path.join(tmp, "out"))
        os.chdir(tmp)
        try:
            if what == "grid":
                grid_unit(rec, unit[2], SHAPES[unit[3]], tmp)
            elif what == "random":
                grid_unit(rec, "flat", RANDOM_SHAPES[unit[2]], tmp)
            elif what == "inst2":
                instantiate_twice(rec)
                empty_config_cases(rec)
            elif what == "world":
                world_cases(rec, tmp)
        finally:
            os.chdir(cwd0)
            os.environ.clear()
            os.environ.update(env0)
    from bounded.common import _jsonable

    return {"unit": unit[1:], "evaluations": rec.evaluations, "violations": [(k, w, _jsonable(c)) for k, w, c in rec.violations],
            "distinct": rec.distinct, "notes": rec.notes, "stats": {k: dict(v) for k, v in STATS.items()}}


def main():
    h = Harness(
        "b08_noninterference",
        rule="parser style {flat, class group, subclass init_args, dataclass type, subcommand, inner parser (ActionParser), nargs='+'} x container shape (16 shapes: lists/dicts, and lists/dicts/sets "
        "below tuples, tuples below lists/sets) x element kind {int, float, Enum, Optional[int], subclass spec, dataclass} x value kind {canonical, "
        "needs conversion, wrong at the last position} x operation; a fresh parser per operation; one evaluation per observed argument and per world "
        "item (declared defaults, cwd, environ, argparse) per call; non-trivial = distinct (style, shape, element, value kind | derived) whose value "
        "holds a nested container, distinct world cases, distinct (placement, source) holding >= 1 class spec",
    )
    units = [(h.thorough, "inst2"), (h.thorough, "world")]
    units += [(h.thorough, "grid", style, n) for style in STYLES for n in range(len(SHAPES))]
    if h.thorough:  # seeded random container types of depth 3 (flat style), beyond the fixed shapes
        seen = {s[0] for s in SHAPES}
        while len(RANDOM_SHAPES) < 64:
            name, typ, build = random_shape(h.rng, 3)
            if name.count("[") >= 3 and name not in seen:
                seen.add(name)
                RANDOM_SHAPES.append((name, typ, build, False))
        units += [(h.thorough, "random", n) for n in range(len(RANDOM_SHAPES))]
    import multiprocessing

    workers = min(16, os.cpu_count() or 1)
    if workers > 1:
        with multiprocessing.get_context("fork").Pool(workers) as pool:
            results = pool.map(work, units, chunksize=1)
    else:
        results = [work(u) for u in units]
    stats: Dict[str, Dict[str, int]] = {}
    for r in results:  # fixed order -> deterministic report
        h.evaluations += r["evaluations"]
        for k, w, c in r["violations"]:
            h.violation(k, w, c)
        for sig in r["distinct"]:
            h.nontrivial(tuple(sig))
        h.notes += r["notes"]
        for op, st in r["stats"].items():
            for o, n in st.items():
                stats.setdefault(op, {"ok": 0, "exc": 0, "exit": 0})[o] += n
    # vacuity guards: accepted and rejected calls both occurred for the operations that can reject
    for op in ("parse_object", "parse_args", "parse_env", "parse_string", "parse_path", "validate", "dump", "save", "instantiate_classes"):
        st = stats.get(op, {})
        h.check(st.get("ok", 0) > 0 and st.get("exc", 0) + st.get("exit", 0) > 0, f"c08:vacuity:{op}", f"accepted and rejected calls must both occur: {st}", None)
    h.sample({"calls_by_operation_and_outcome": stats})
    h.notes = sorted(set(h.notes))[:40]
    grid = ("6 styles x 16 shapes x 6 element kinds + 64 seeded random depth-3 container types (flat style) x 6 element kinds; nargs='+' x {int, float, Enum}" if h.thorough else
            "flat style: 16 shapes x {int, float, Enum, Optional[int]} + 6 shapes x {class spec, dataclass}; other 5 styles: 4 shapes x {int, Enum} + 2 shapes x {class spec}; nargs='+' x {int, float, Enum}")
    sys.exit(h.finish(exhaustive=True, bound=grid + " (hashable element kinds only inside sets) x 3 value kinds x 19 raw calls + 4 derived configurations x 11 calls + "
                      "6 argument-less calls + one 14-call workflow (failing calls in between) on a single parser and configuration; 21 class-spec placements x <= 3 inputs x 3 sources instantiated twice; 25 cwd/environ/argparse cases x 3 "
                      "operations + parse_path/parse_env/save cases"))


if __name__ == "__main__":
    main()
