"""C20 bounded stand-in: restricted number/string types validate exactly; registered scalar types round-trip losslessly;
secret strings never appear in a dump.

Four parts, all on the real public objects of /repo (`restricted_number_type`, `restricted_string_type`, the shipped
restricted types, `get_registered_type(T).serializer/deserializer`, `ArgumentParser.parse_* / dump / save`):

 A  restricted numbers  every multiset of 1..3 comparisons over {>,>=,<,<=,==,!=} x 4 reference values x {int,float} x
                        {and,or}, each type called on every candidate value (numbers around the bounds, integral and
                        non-integral floats, signed zero, inf, nan, 2^53+-1, 10^400, booleans, numeric strings, junk);
                        the singletons and the shipped types additionally through a parser (argv text, parse_object).
                        Checked: accepted iff the statement says so, result == input as base type, T(T(v)) == T(v).
                        Oracle: a 15-line evaluation of the statement (`model_number`).
 B  restricted strings  shipped NotEmptyStr / Email + 8 custom patterns x ~45 strings; oracle: hand-written predicates
                        (no `re`) on newline-free strings; on the remaining (pattern, string) pairs CPython's `re.match`.
 C  registered types    complex, Decimal, UUID, timedelta, bytes, bytearray, range, pathlib.Path/PosixPath: for every value
                        of a grid that contains the extremes: deserializer(serializer(v)), parse_object(v), and the
                        dump (yaml / json) re-read from a config file and from the command line must give an equal
                        value of the same type (NaN-aware equality); then the same inside List / Dict / Tuple.
                        (Not inside Optional/Union: there a text such as 'null' or '10' legitimately belongs to another member.)
 D  secrets             every value that a parse stores as a SecretStr (jsonargparse and pydantic) must be absent from
                        every dump format / option, from --print_config and from saved files.

Known defect classes met on the unchanged tree (each with a tight key, nothing is special-cased away): Decimal travels through
float (`c20:roundtrip:Decimal:...`); a str that the YAML loader reads as a float is dumped plain (C01), which breaks bytes /
bytearray / pathlib values whose text looks like `1e30` (`c20:roundtrip:(bytes|bytearray|Path|PosixPath):<text>:yaml-file`);
`._` crashes the float constructor (C03).  One defect fails for unboundedly many values: see `rt_check` for how they are listed.
"""
import base64
import contextlib
import dataclasses
import datetime
import decimal
import fractions
import io
import itertools
import json
import math
import os
import pathlib
import re
import sys
import tempfile
import uuid
from typing import Any, Dict, List, Optional, Set, Tuple, Union

from bounded.common import Harness, outcome

import jsonargparse.typing as jt
from jsonargparse import ActionConfigFile, ArgumentParser, Namespace
from jsonargparse.typing import get_registered_type, restricted_number_type, restricted_string_type

Decimal = decimal.Decimal
timedelta = datetime.timedelta

# --------------------------------------------------------------------------------------------------------------------
# Part A: restricted numbers
# --------------------------------------------------------------------------------------------------------------------
OPS = {
    ">": lambda a, b: a > b,
    ">=": lambda a, b: a >= b,
    "<": lambda a, b: a < b,
    "<=": lambda a, b: a <= b,
    "==": lambda a, b: a == b,
    "!=": lambda a, b: a != b,
}
REFS = {int: [-1, 0, 1, 3], float: [-1, 0, 1, 2.5]}
REFS_THOROUGH = {int: [-1, 0, 1, 3, 2**53], float: [-1, 0, 1, 2.5, 0.1]}


def converts(base, v):
    """The input as base type, or None when it does not convert (statement: 'converts to the base type').

    Booleans are not numbers (C02 lists 'bool for int' among the wrong values) and a float converts to int only when
    the conversion keeps the value (DESIGN C20: base=int and float(v) => is_integer(v))."""
    if isinstance(v, bool):
        return None
    if base is int and isinstance(v, float) and not v.is_integer():
        return None
    try:
        return base(v)
    except Exception:  # noqa
        return None


def model_number(base, restr, join, v):
    """(accepted, value as base type) straight from the statement."""
    vv = converts(base, v)
    if vv is None:
        return False, None
    checks = [OPS[op](vv, ref) for op, ref in restr]
    ok = all(checks) if join == "and" else any(checks)
    return ok, vv


def same_number(a, b):
    if isinstance(a, float) and isinstance(b, float) and math.isnan(a) and math.isnan(b):
        return True
    return a == b


class Junk:
    def __repr__(self):
        return "Junk()"


def number_candidates():
    ints = [-2, -1, 0, 1, 2, 3, 4, 2**53 - 1, 2**53, 2**53 + 1, 10**400, -(10**400)]
    floats = [-1.5, -1.0, -0.0, 0.0, 0.5, 1.0, 2.0, 2.4999999999999996, 2.5, 2.5000000000000004, 3.0, 3.0000000000000004,
              1e308, 5e-324, -5e-324, float("inf"), float("-inf"), float("nan"), 9007199254740992.0]
    bools = [True, False]
    strings = ["0", "1", "-1", "+1", "2.5", "1.0", "1e0", " 1 ", "1_0", "0x1", "１", "nan", "inf", "-inf", "1e400", "", " ",
               "3", "-0", "0.0", "2.50", "abc", "1 2", "true", "null", "[1]", "1" + "0" * 400, "١"]
    junk = [None, [], [1], (1,), {}, {1: 2}, b"1", b"x", 1 + 0j, Junk(), Decimal("1"), Decimal("2.5"), Decimal("NaN"),
            fractions.Fraction(1, 2), fractions.Fraction(3, 1)]
    return ints + floats + bools + strings + junk


def restr_name(base, join, restr):
    return f"{base.__name__}:{join}:" + ",".join(f"{op}{ref}" for op, ref in restr)


_type_counter = itertools.count()
_type_cache = {}


def make_number_type(base, restr, join):
    """One type per (base, join, multiset of restrictions): jsonargparse refuses to register the same set under a second
    name, so the shipped types are looked up rather than re-created."""
    if not _type_cache:
        for T in (jt.PositiveInt, jt.NonNegativeInt, jt.PositiveFloat, jt.NonNegativeFloat, jt.ClosedUnitInterval, jt.OpenUnitInterval):
            shipped = {"PositiveInt": (int, [(">", 0)]), "NonNegativeInt": (int, [(">=", 0)]), "PositiveFloat": (float, [(">", 0)]),
                       "NonNegativeFloat": (float, [(">=", 0)]), "ClosedUnitInterval": (float, [(">=", 0), ("<=", 1)]),
                       "OpenUnitInterval": (float, [(">", 0), ("<", 1)])}[T.__name__]
            _type_cache[(shipped[0], "and", tuple(sorted(shipped[1])))] = T
    ck = (base, join, tuple(sorted(restr)))
    if ck not in _type_cache:
        _type_cache[ck] = restricted_number_type(f"VerifRN{next(_type_counter)}", base, list(restr), join=join)
    return _type_cache[ck]


def check_number_direct(h, T, base, restr, join, v, tname):
    key = f"c20:restricted:{tname}:{v!r}"[:148]
    exp_ok, exp_val = model_number(base, restr, join, v)
    try:
        r = T(v)
        got_ok = True
    except Exception as ex:  # noqa  (any exception is a refusal; which class is C03's business)
        r, got_ok = ex, False
    case = {"type": f"restricted_number_type(None, {base.__name__}, {list(restr)!r}, join={join!r})", "value": repr(v)[:80], "got": repr(r)[:120]}
    if not h.check(got_ok == exp_ok, key + ":accept", f"accepted={got_ok}, statement says {exp_ok}", case):
        return got_ok
    if got_ok:
        ok = isinstance(r, base) and not isinstance(r, bool) and isinstance(r, T) and same_number(base(r), exp_val)
        h.check(ok, key + ":value", f"result {r!r} ({type(r).__name__}) is not the input as {base.__name__} ({exp_val!r})", case)
        try:
            r2 = T(r)
            ok2 = type(r2) is type(r) and same_number(base(r2), base(r))
        except Exception as ex:  # noqa
            r2, ok2 = ex, False
        h.check(ok2, key + ":recast", f"casting the accepted value again gives {r2!r}", case)
    return got_ok


def parser_for(T, **kw):
    p = ArgumentParser(exit_on_error=False)
    p.add_argument("--cfg", action=ActionConfigFile)
    p.add_argument("--k", type=T, **kw)
    return p


def part_a(h):
    cands = number_candidates()
    stats = {"types": 0, "accepted": 0, "rejected": 0}
    max_len = 3
    refs = REFS_THOROUGH if h.thorough else REFS
    for base in (int, float):
        singles = [(op, ref) for op in OPS for ref in refs[base]]
        for n in range(1, max_len + 1):
            for restr in itertools.combinations_with_replacement(singles, n):
                if n == 3 and not h.thorough:
                    # quick: triples over 3 of the 4 reference values (all operators)
                    if any(ref == refs[base][0] for _, ref in restr):
                        continue
                for join in ("and", "or"):
                    tname = restr_name(base, join, restr)
                    res = outcome(make_number_type, base, restr, join)
                    if res[0] != "ok":
                        h.check(False, f"c20:restricted:{tname}:create", f"type creation failed: {res}", {"restrictions": restr})
                        continue
                    T = res[1]
                    stats["types"] += 1
                    for v in cands:
                        acc = check_number_direct(h, T, base, restr, join, v, tname)
                        stats["accepted" if acc else "rejected"] += 1
                    h.nontrivial(("A", tname))
    h.sample({"part": "A", **stats})
    h.note(f"A: {stats}")

    # ---- through a parser: singletons, shipped types, a few pairs
    shipped = [
        (jt.PositiveInt, int, ((">", 0),), "and"), (jt.NonNegativeInt, int, ((">=", 0),), "and"),
        (jt.PositiveFloat, float, ((">", 0),), "and"), (jt.NonNegativeFloat, float, ((">=", 0),), "and"),
        (jt.ClosedUnitInterval, float, ((">=", 0), ("<=", 1)), "and"), (jt.OpenUnitInterval, float, ((">", 0), ("<", 1)), "and"),
    ]
    extra = []

    def add_extra(base, restr, join):
        res = outcome(make_number_type, base, restr, join)
        if h.check(res[0] == "ok", f"c20:restricted:{restr_name(base, join, restr)}:create", f"type creation failed: {res}", {"restrictions": restr}):
            extra.append((res[1], base, restr, join))

    for base in (int, float):
        for op in OPS:
            for ref in REFS[base][1:] if not h.thorough else REFS[base]:
                add_extra(base, ((op, ref),), "and")
        add_extra(base, (("<", 0), (">", 1)), "or")
        add_extra(base, ((">=", -1), ("!=", 0), ("<=", 1)), "and")
        add_extra(base, (("==", -1), ("==", 1), (">", 1)), "or")
    pacc = prej = 0
    for T, base, restr, join in shipped + extra:
        tname = ("shipped:" + T.__name__) if (T, base, restr, join) in shipped else restr_name(base, join, restr)
        # the shipped types also directly
        if tname.startswith("shipped:"):
            for v in cands:
                check_number_direct(h, T, base, restr, join, v, tname)
        p = parser_for(T)
        for v in cands:
            if v is None:
                continue  # None through parse_object means "not given"
            chans = [("obj", p.parse_object, ({"k": v},))]
            if isinstance(v, str) and "\n" not in v:
                chans.append(("argv", p.parse_args, (["--k=" + v],)))
            for chan, fn, args in chans:
                key = f"c20:restricted-parse:{tname}:{chan}:{v!r}"[:148]
                exp_ok, exp_val = model_number(base, restr, join, v)
                res = outcome(fn, *args)
                got_ok = res[0] == "ok"
                case = {"parser": f"add_argument('--k', type={tname})", "channel": chan, "value": repr(v)[:80], "outcome": repr(res)[:200]}
                if h.check(got_ok == exp_ok, key + ":accept", f"parse accepted={got_ok}, statement says {exp_ok}", case) and got_ok:
                    r = res[1].k
                    ok = isinstance(r, base) and not isinstance(r, bool) and same_number(base(r), exp_val)
                    h.check(ok, key + ":value", f"parsed {r!r}, input as {base.__name__} is {exp_val!r}", case)
                pacc += got_ok
                prej += not got_ok
        h.nontrivial(("A-parser", tname))
    h.note(f"A (parser): accepted {pacc}, rejected {prej}")
    return stats


# --------------------------------------------------------------------------------------------------------------------
# Part B: restricted strings
# --------------------------------------------------------------------------------------------------------------------
def email_pred(s):
    if s.count("@") != 1 or " " in s:
        return False
    local, dom = s.split("@")
    return bool(local) and any(dom[i] == "." and 0 < i < len(dom) - 1 for i in range(len(dom)))


STRING_TYPES = [
    # (how to get the type, pattern text, flags, hand-written predicate for newline-free strings)
    ("NotEmptyStr", r"^.*[^ ].*$", 0, lambda s: any(c != " " for c in s)),
    ("Email", r"^[^@ ]+@[^@ ]+\.[^@ ]+$", 0, email_pred),
    ("VerifLower", r"^[a-z]+$", 0, lambda s: len(s) > 0 and all("a" <= c <= "z" for c in s)),
    ("VerifCode", r"^\d{3}-\d{2}$", 0, lambda s: len(s) == 6 and s[3] == "-" and all(c.isdecimal() for c in s[:3] + s[4:])),
    ("VerifYesNo", r"^(yes|no)$", 0, lambda s: s in ("yes", "no")),
    ("VerifLen", r"^.{2,4}$", 0, lambda s: 2 <= len(s) <= 4),
    ("VerifEmpty", r"^$", 0, lambda s: s == ""),
    ("VerifNoCase", r"^abc$", re.I, lambda s: s.lower() == "abc" and len(s) == 3 and s.isascii()),
    ("VerifPrefix", r"a+", 0, None),          # not anchored: decided by re.match (prefix match), keyed separately
    ("VerifAny", r".*", 0, lambda s: True),
]


def string_candidates():
    return ["", " ", "  ", "a", "abc", "ABC", "aBc", "abc\n", "\n", " a ", "a b", "a@b.c", "a@b", "@b.c", "a@.c", "a@b.", "a@@b.c", "a @b.c",
            "a@b.c ", "a@b.c\n", "a@b.c.d", "a@b..c", ".@..c", "a@b c.d", "x" * 300 + "@y.z", "123-45", "123-456", "12-345", "١٢٣-45",
            "²²²-45", "yes", "no", "yess", "yes\n", "aab", "baa", "ünï", "\t", "\x00", "a\nb", "null", "123", "1e3", "true",
            "[1, 2]", "{a: 1}", "ab", "abcd", "abcde", "K", "ABC\n"]


def part_b(h):
    cands = string_candidates()
    nonstr = [5, None, b"abc", ["a"], True, 1.5]
    acc = rej = 0
    for name, pat, flags, pred in STRING_TYPES:
        if name in ("NotEmptyStr", "Email"):
            T = getattr(jt, name)
        else:
            res = outcome(restricted_string_type, name, re.compile(pat, flags) if flags else pat)
            if not h.check(res[0] == "ok", f"c20:restricted-str:{name}:create", f"type creation failed: {res}", {"pattern": pat}):
                continue
            T = res[1]
        rx = re.compile(pat, flags)
        p = parser_for(T)
        for s in cands:
            if pred is not None and "\n" not in s:
                exp, cls = bool(pred(s)), "restricted-str"
            else:
                exp, cls = rx.match(s) is not None, "restricted-str-rematch"
            key = f"c20:{cls}:{name}:{s!r}"[:140]
            case = {"type": f"restricted_string_type({name!r}, {pat!r})", "value": s}
            runs = [("call", outcome(T, s))]
            runs.append(("obj", outcome(p.parse_object, {"k": s})))
            if "\x00" not in s:
                runs.append(("argv", outcome(p.parse_args, ["--k=" + s])))
            for chan, res in runs:
                got = res[0] == "ok"
                if h.check(got == exp, f"{key}:{chan}:accept", f"accepted={got}, pattern says {exp}", {**case, "channel": chan, "outcome": repr(res)[:200]}) and got:
                    r = res[1] if chan == "call" else res[1].k
                    ok = isinstance(r, str) and str(r) == s and (chan != "call" or type(r) is T)
                    h.check(ok, f"{key}:{chan}:value", f"result {r!r} differs from the input", case)
                    if chan == "call":
                        r2 = outcome(T, r)
                        h.check(r2[0] == "ok" and type(r2[1]) is T and str(r2[1]) == s, f"{key}:recast", f"casting again gives {r2!r}", case)
                acc += got
                rej += not got
            h.nontrivial(("B", name, s))
        for v in nonstr:
            # the statement does not say whether a non-string that str() can convert must be taken; only the result is constrained
            res = outcome(T, v)
            if res[0] == "ok":
                h.check(isinstance(res[1], str) and res[1] == str(v) and rx.match(str(v)) is not None, f"c20:restricted-str:{name}:nonstr:{v!r}",
                        f"non-string accepted as {res[1]!r}", {"type": name, "value": repr(v)})
    h.note(f"B: accepted {acc}, rejected {rej}")
    # two types that differ only in the flags of their pattern are two types: asking for the second must not hand out the first
    first = outcome(restricted_string_type, "FlagA", "^abc$")
    for second_name in ("FlagA", "FlagB"):
        second = outcome(restricted_string_type, second_name, re.compile("^abc$", re.I))
        if second[0] == "ok":
            got = outcome(second[1], "ABC")
            h.check(got[0] == "ok", f"c20:restricted-str:flags-ignored:second-type-named-{'like-the-first' if second_name == 'FlagA' else 'differently'}",
                    f"restricted_string_type({second_name!r}, re.compile('^abc$', re.I)) after ('FlagA', '^abc$') rejects 'ABC', which its pattern matches: {got!r} (same class as the first: {first[0] == 'ok' and second[1] is first[1]})",
                    {"first": "restricted_string_type('FlagA', '^abc$')", "second": f"restricted_string_type({second_name!r}, re.compile('^abc$', re.I))", "value": "ABC"})
        else:
            h.check(True, "", "", None)  # refusing the second declaration (a name clash) is an honest answer


# --------------------------------------------------------------------------------------------------------------------
# Part C: registered types
# --------------------------------------------------------------------------------------------------------------------
LOOKALIKE = ["1e3", "._", ".5", "1_000", "010", "0x10", "1:30", "true", "True", "yes", "no", "on", "null", "~", "", " ", "-", "=", "nan", ".inf",
             "2020-01-01", "{a: 1}", "[1, 2]", "a: b", "*x", "&a", "123", "1.5", "+1e3", "1e+3", "-1e-3", "#x", "a #b", "a/b", "/", ".", "..", "a b",
             "/abs/y.txt", "rel/x", "ünï", "!tag", "%x", "@x", "`x", "'q'", '"q"', "a'b", "k: v: w", "- x", "? x", "|", ">", "1e3 ", "0o17", "1__0", "12e03"]


def values_for(tier_thorough, rng):
    vals = {}
    # timedelta: grid incl. negative, sub-second, extremes
    tds = []
    days = [-999999999, -2, -1, 0, 1, 2, 30, 999999999]
    secs = [0, 1, 59, 60, 3599, 3600, 36000, 86399]
    uss = [0, 1, 10, 500000, 999999]
    for d in days:
        for s in secs:
            for u in uss:
                tds.append(timedelta(days=d, seconds=s, microseconds=u))
    tds += [timedelta.max, timedelta.min, timedelta.resolution, -timedelta.resolution, timedelta(milliseconds=1), timedelta(weeks=52)]
    vals[timedelta] = tds
    # complex: zero / negative-zero / non-finite / extreme parts
    parts = [0.0, -0.0, 1.0, -1.0, 0.1, 2.5, 1e22, 1e-7, 1e308, 5e-324, float("inf"), float("-inf"), float("nan"), 123456789.12345679, 1e16]
    vals[complex] = [complex(a, b) for a in parts for b in parts]
    vals[Decimal] = [Decimal(s) for s in [
        "0", "-0", "1", "-1", "3", "0.5", "0.25", "0.125", "0.1", "0.2", "0.3", "3.14", "1E+3", "1E-3", "1e22", "1e23", "123456789012345678",
        "9007199254740993", "12345678901234567890.123456789", "1.000000000000000000001", "0.30000000000000004",
        "0.1000000000000000055511151231257827021181583404541015625", "1.10", "100", "1E+400", "1E-400", "-1E+400", "Infinity", "-Infinity", "NaN",
        "sNaN", "0.0000001", "5E-324", "1.7976931348623157E+308", "1.7976931348623159E+308", "2.50", "-2.5", "0E+3", "1234.5678"]]
    vals[uuid.UUID] = [uuid.UUID(int=0), uuid.UUID(int=2**128 - 1), uuid.UUID(int=1), uuid.UUID("12345678-1234-5678-1234-567812345678"),
                       uuid.uuid5(uuid.NAMESPACE_DNS, "example.org"), uuid.uuid3(uuid.NAMESPACE_URL, "http://x"), uuid.UUID(int=0x1E3 << 96),
                       uuid.UUID("00000000-0000-0000-0000-0000000001e3"), uuid.UUID(bytes=bytes(range(16)))]
    b64texts = ["1e30", "12e3", "+1e3", "1E30", "1e+3", "0e00", "1234", "0000", "0x1F", "null", "Null", "NULL", "true", "True", "TRUE", "None", "++++",
                "////", "ab/+", "yes+", "1e3=", "1e0=", "MQ==", "+1==", "0o17", "0b11", "1e30" * 2, "00e1", "123e", "e123", "12E0", "-1e3".replace("-", "+")]
    bs = [b"", b"\x00", b"\xff", b"hello", b"hello world, this is a longer byte string \x00\x01\x02", bytes(range(256)), b"\n", b" "]
    bs += [bytes([i]) for i in range(0, 256, 1 if tier_thorough else 5)]
    bs += [base64.b64decode(t) for t in b64texts]
    vals[bytes] = bs
    vals[bytearray] = [bytearray(b) for b in bs[:8] + [base64.b64decode(t) for t in ("1e30", "1234", "null", "true", "++++", "MQ==")]]
    rs = []
    for start in [None, -3, 0, 1, 5, 10**20]:
        for stop in [-1, 0, 1, 5, 7, 10**30, -(10**30)]:
            for step in [None, 1, 2, -1, -2, 10**20]:
                if start is None:
                    if step is None:
                        rs.append(range(stop))
                elif step is None:
                    rs.append(range(start, stop))
                else:
                    rs.append(range(start, stop, step))
    vals[range] = rs
    vals[pathlib.Path] = [pathlib.Path(t) for t in LOOKALIKE]
    vals[pathlib.PosixPath] = [pathlib.PosixPath(t) for t in ["1e3", "010", "true", "null", "~", "", " ", "-", "a/b", "/", "x.yaml", "{a: 1}"]]
    if tier_thorough:
        for _ in range(400):
            vals[timedelta].append(timedelta(days=rng.randint(-10**6, 10**6), seconds=rng.randint(0, 86399), microseconds=rng.randint(0, 999999)))
            vals[complex].append(complex(rng.uniform(-1e6, 1e6), rng.choice([rng.uniform(-1, 1), float(rng.randint(-5, 5))])))
            vals[Decimal].append(Decimal(rng.randint(-10**rng.randint(1, 25), 10**rng.randint(1, 25))).scaleb(-rng.randint(0, 12)))
            vals[uuid.UUID].append(uuid.UUID(int=rng.getrandbits(128)))
            vals[bytes].append(bytes(rng.getrandbits(8) for _ in range(rng.randint(0, 12))))
            vals[range].append(range(rng.randint(-50, 50), rng.randint(-50, 50), rng.choice([-7, -1, 1, 2, 3, 11])))
        # every base64 text of 4 characters over an alphabet that can look like a YAML scalar
        for t in itertools.product("019eE+xnul", repeat=4):
            vals[bytes].append(base64.b64decode("".join(t)))
    return vals


def nan_eq(a, b):
    """Equal value of the same type (NaN-aware: the property cannot ask NaN == NaN)."""
    if type(a) is not type(b):
        return False
    if isinstance(a, complex):
        return all((math.isnan(x) and math.isnan(y)) or x == y for x, y in ((a.real, b.real), (a.imag, b.imag)))
    if isinstance(a, Decimal) and a.is_nan() and b.is_nan():
        return a.is_snan() == b.is_snan()
    if isinstance(a, (list, tuple)):
        return len(a) == len(b) and all(nan_eq(x, y) for x, y in zip(a, b))
    if isinstance(a, dict):
        return a.keys() == b.keys() and all(nan_eq(a[k], b[k]) for k in a)
    if isinstance(a, range):
        # equal ranges denote the same sequence; the round trip is also expected to keep start/stop/step
        return a == b
    return a == b


def short(v):
    return repr(v).replace(" ", "")[:70]


RT_SLOTS = {}
RT_LIMIT = 8


def rt_check(h, ok, key, chan, res, what, case):
    """A round-trip check. One defect (e.g. Decimal travelling through float) fails for unboundedly many values; the first
    RT_LIMIT failing values per (type, channel, symptom) are listed under their own key, later ones under one '+more' key per
    (type, channel, symptom), so that the evidence file keeps room for violations with a different symptom."""
    if ok:
        return h.check(True, key + ":" + chan)
    RT_SLOTS["fails"] = RT_SLOTS.get("fails", 0) + 1
    symptom = "differs" if res[0] == "ok" else str(res[1]) if res[0] == "exc" else "exit"
    tn = key.split(":")[2]
    slot = (tn, chan.split(":")[0], symptom)
    RT_SLOTS[slot] = RT_SLOTS.get(slot, 0) + 1
    if RT_SLOTS[slot] > RT_LIMIT:
        return h.check(False, f"c20:roundtrip:{tn}:+more:{slot[1]}:{symptom}", f"more than {RT_LIMIT} values of {tn} fail through '{slot[1]}' with symptom '{symptom}'; "
                       "totals are in the notes. First one not listed: " + what, case)
    return h.check(False, key + ":" + chan, what, case)


def part_c(h, tmp):
    vals = values_for(h.thorough, h.rng)
    cfg_file = os.path.join(tmp, "c.cfg")
    counts = {}
    # Decimal last: its known lossy serializer produces many entries, they must not crowd out anything else
    order = [T for T in vals if T is not Decimal] + [Decimal]
    for T in order:
        values = vals[T]
        tn = T.__name__
        handler = get_registered_type(T)
        if not h.check(handler is not None, f"c20:registered:{tn}", "type is not registered", {"type": tn}):
            continue
        p = parser_for(T)
        seen = set()
        clean = []  # values for which every scalar check passed (used for the container contexts below)
        for v in values:
            sig = (tn, repr(v))
            if sig in seen:
                continue
            seen.add(sig)
            nviol = (len(h.viol_keys), RT_SLOTS.get("fails", 0))
            case = {"parser": f"add_argument('--k', type={tn})", "value": repr(v)[:120]}
            ser_res = outcome(handler.serializer, v)
            ser = ser_res[1] if ser_res[0] == "ok" else None
            ident = ser if isinstance(ser, str) and ser != "" else short(v)
            key = f"c20:roundtrip:{tn}:{ident}"[:125]
            # (1) the registered pair itself
            pair_ok = False
            if h.check(ser_res[0] == "ok", key + ":serialize", f"serializer failed: {ser_res}", case):
                back = outcome(handler.deserializer, ser)
                pair_ok = rt_check(h, back[0] == "ok" and nan_eq(back[1], v), key, "pair", back, f"deserializer(serializer(v)) = {back[1] if back[0] == 'ok' else back!r} via {ser!r}"[:300], case)
            # (1b) history: deserialising the same text twice gives two independent objects (editing the first result must not show in the second:
            #      nothing of one parse is remembered for the next)
            if pair_ok and isinstance(v, (bytearray, list, dict, set)):
                a = outcome(handler.deserializer, ser)
                if a[0] == "ok" and isinstance(a[1], bytearray):
                    a[1].extend(b"-edited")
                b = outcome(handler.deserializer, ser)
                h.check(b[0] == "ok" and nan_eq(b[1], v) and b[1] is not a[1], f"c20:fresh-result:{tn}", f"a second deserialisation of {ser!r} gives {b[1] if b[0] == 'ok' else b!r} after the first result was edited", case)
            # (2) a value that already has the type is taken as it is
            res = outcome(p.parse_object, {"k": v})
            rt_check(h, res[0] == "ok" and nan_eq(res[1].k, v), key, "object", res, f"parse_object of the value gives {res!r}"[:300], case)
            # (3) dump, then read the dump back: config file (yaml and json dump) and command line.
            #     When the pair itself already loses the value, the file channels (dump = serializer, load = deserializer)
            #     cannot do better and are not reported a second time; the command line takes another route (text) and is.
            cfg = Namespace(k=v)
            argv_done = set()
            for fmt in ("yaml", "json"):
                d = outcome(p.dump, cfg, format=fmt)
                if not pair_ok and d[0] != "ok":
                    continue
                if not h.check(d[0] == "ok", f"{key}:dump-{fmt}", f"dump failed: {d}", case):
                    continue
                text = d[1]
                case2 = {**case, "dump": text[:200]}
                with open(cfg_file, "w") as f:
                    f.write(text)
                chans = []
                if pair_ok:
                    chans.append((f"{fmt}-file", p.parse_args, ([f"--cfg={cfg_file}"],)))
                    if h.thorough:
                        chans.append((f"{fmt}-string", p.parse_string, (text,)))
                if fmt == "json":
                    rep = json.loads(text)["k"]  # the config representation of the value
                    arg = rep if isinstance(rep, str) else json.dumps(rep)
                    if arg in ("NaN", "Infinity", "-Infinity"):  # json spellings of non-finite floats; the yaml spelling was tried
                        arg = None
                else:
                    arg = text[len("k:"):].strip()
                    if arg[:1] in "'\"" or "\n" in arg:  # quoted / block scalar: the json representation is used instead
                        arg = None
                if arg is not None and arg not in argv_done:
                    argv_done.add(arg)
                    chans.append(("argv", p.parse_args, (["--k=" + arg],)))
                for chan, fn, args in chans:
                    r = outcome(fn, *args)
                    ok = r[0] == "ok" and nan_eq(r[1].k, v)
                    cname = chan if chan != "argv" or len(argv_done) == 1 else f"argv:{args[0][0][4:]}"[:40]
                    rt_check(h, ok, key, cname, r, f"{chan}: got {(r[1].k if r[0] == 'ok' else r)!r}, expected {v!r}"[:300], {**case2, "input": repr(args)[:200] if chan == "argv" else text[:200]})
            counts[tn] = counts.get(tn, 0) + 1
            h.nontrivial(("C", tn, repr(v)))
            if (len(h.viol_keys), RT_SLOTS.get("fails", 0)) == nviol:
                clean.append(v)
        # the type inside containers (values that pass alone, so that only the container context is new)
        picks = [clean[i] for i in sorted({0, 1, len(clean) // 3, len(clean) // 2, len(clean) - 1}) if 0 <= i < len(clean)]
        if not picks:
            continue
        # (no Optional/Union contexts: there the text of a value can legitimately belong to another member, e.g. the path 'null')
        for hint, value in ((List[T], list(picks)), (Dict[str, T], {f"e{i}": x for i, x in enumerate(picks)}), (Tuple[T, int], (picks[-1], 7)),
                            (List[List[T]], [[picks[0]], list(picks[1:])])):
            hp = parser_for(hint)
            hname = str(hint).replace("typing.", "").replace("datetime.", "").replace("decimal.", "").replace("uuid.", "").replace("pathlib.", "").replace(" ", "")
            key = f"c20:roundtrip-nested:{hname}"[:120]
            case = {"parser": f"add_argument('--k', type={hname})", "value": repr(value)[:200]}
            for fmt in ("yaml", "json"):
                d = outcome(hp.dump, Namespace(k=value), format=fmt)
                if not h.check(d[0] == "ok", f"{key}:dump-{fmt}", f"dump failed: {d}", case):
                    continue
                with open(cfg_file, "w") as f:
                    f.write(d[1])
                chans = [(f"{fmt}-file", hp.parse_args, ([f"--cfg={cfg_file}"],))]
                if fmt == "json":
                    rep = json.loads(d[1])["k"]
                    chans.append(("argv", hp.parse_args, (["--k=" + (rep if isinstance(rep, str) else json.dumps(rep))],)))
                for chan, fn, args in chans:
                    r = outcome(fn, *args)
                    h.check(r[0] == "ok" and nan_eq(r[1].k, value), f"{key}:{chan}", f"{chan}: got {(r[1].k if r[0] == 'ok' else r)!r}, expected {value!r}"[:300], {**case, "dump": d[1][:200]})
            h.nontrivial(("C-nested", hname))
    h.note(f"C: distinct values per type {counts}")
    h.note("C: failing round trips per (type, channel, symptom): " + "; ".join(f"{k[0]}/{k[1]}/{k[2]}={n}" for k, n in sorted((k, n) for k, n in RT_SLOTS.items() if k != "fails")))


# --------------------------------------------------------------------------------------------------------------------
# Part D: secrets
# --------------------------------------------------------------------------------------------------------------------
SECRETS = ["hunterQ7XYZ", "sQ7cr3t wQ7th space", "pässQ7wörd", "Q7x:colon#Q7hash", "9876543217", "9.87654e3", "Zq'Q7quote\"dq", "{zz: hunterQ7D}",
           "[hunterQ7L, 5]", "line1Q7W\nline2Q7W", "-dashQ7Z", "Q7null", "%ZQ7percent", "0xDEADBEEF"]


@dataclasses.dataclass
class SecretData:
    pw: jt.SecretStr = jt.SecretStr("dataclassQ7DefaultSecret")
    n: int = 1


class SecretHolder:
    def __init__(self, token: jt.SecretStr, tokens: Optional[List[jt.SecretStr]] = None, n: int = 2):
        self.token = token


def holds_secret(x):
    if isinstance(x, jt.SecretStr) or (type(x).__name__ == "SecretStr" and hasattr(x, "get_secret_value")):
        return True
    if isinstance(x, Namespace):
        return any(holds_secret(v) for v in vars(x).values())
    if isinstance(x, dict):
        return any(holds_secret(v) for v in x.values())
    if isinstance(x, (list, tuple, set)):
        return any(holds_secret(v) for v in x)
    return False


def secret_fragments(secret):
    """What must not be visible: the secret text and every distinctive token of it (a structured text such as '{zz: s}'
    is split by the loader before it is stored, so the whole text alone would not be found)."""
    frags = {secret} | {t for t in re.findall(r"\w{5,}", secret) if "Q7" in t or t.isdigit()}
    return sorted(frags)


def visible(frags, text):
    return [f for f in frags if f in text or json.dumps(f)[1:-1] in text or json.dumps(f, ensure_ascii=False)[1:-1] in text]


def part_d(h, tmp):
    try:
        import pydantic

        pyd = pydantic.SecretStr
    except Exception:  # noqa
        pyd = None
    S = jt.SecretStr
    shapes = [
        ("SecretStr", S, lambda s: s),
        ("Optional[SecretStr]", Optional[S], lambda s: s),
        ("List[SecretStr]", List[S], lambda s: [s, "otherQ7Secret"]),
        ("Dict[str,SecretStr]", Dict[str, S], lambda s: {"a": s}),
        ("Tuple[SecretStr,int]", Tuple[S, int], lambda s: [s, 1]),
        ("Set[SecretStr]", Set[S], lambda s: [s]),
        ("Union[SecretStr,int]", Union[S, int], lambda s: s),
        ("Union[int,SecretStr]", Union[int, S], lambda s: s),
        ("Union[List[SecretStr],SecretStr]", Union[List[S], S], lambda s: [s]),
        ("Dict[str,List[SecretStr]]", Dict[str, List[S]], lambda s: {"a": [s]}),
        ("SecretData", SecretData, lambda s: {"pw": s}),
        ("Any(obj)", Any, lambda s: S(s)),
        ("List[Any](obj)", List[Any], lambda s: [S(s)]),
        ("Dict[str,Any](obj)", Dict[str, Any], lambda s: {"a": S(s)}),
        ("Union[str,SecretStr](obj)", Union[str, S], lambda s: S(s)),
    ]
    if pyd is not None:
        shapes.append(("pydantic.SecretStr", pyd, lambda s: s))
    dumps = [("yaml", {}), ("json", {}), ("json_indented", {}), ("toml", {}), ("yaml", {"skip_validation": True}), ("yaml", {"yaml_comments": True}),
             ("yaml", {"skip_default": True}), ("yaml", {"skip_none": False}), ("json", {"skip_validation": True, "skip_none": False})]
    leaks = stored = raw_default_comment = 0
    for sname, hint, build in shapes:
        for si, secret in enumerate(SECRETS):
            frags = secret_fragments(secret)
            src = build(secret)
            argv_text = None
            inputs = [("obj", lambda p: p.parse_object({"k": build(secret)}))]
            if "(obj)" not in sname:
                text = src if isinstance(src, str) else json.dumps(src)
                if "\n" not in text:
                    argv_text = text
                    inputs.append(("argv", lambda p: p.parse_args(["--k=" + argv_text])))
                inputs.append(("string", lambda p: p.parse_string(json.dumps({"k": src}))))
                if sname in ("SecretStr", "Optional[SecretStr]", "pydantic.SecretStr"):
                    inputs.append(("default-str", None))
                    inputs.append(("default-obj", None))
            for chan, run in inputs:
                if chan == "default-str":
                    p = parser_for(hint, default=secret)
                    res = outcome(p.parse_args, [])
                elif chan == "default-obj":
                    p = parser_for(hint, default=(pyd if sname.startswith("pydantic") else S)(secret))
                    res = outcome(p.parse_args, [])
                else:
                    p = parser_for(hint)
                    res = outcome(run, p)
                if res[0] != "ok":
                    continue
                cfg = res[1]
                if not holds_secret(cfg.k):
                    continue  # the value was not stored as a secret (e.g. the Union picked another member): nothing is claimed
                stored += 1
                key = f"c20:secret:{sname}:{chan}:s{si}"
                case = {"parser": f"add_argument('--k', type={sname})", "channel": chan, "secret": secret}
                for fmt, kw in dumps:
                    d = outcome(p.dump, cfg.clone(), format=fmt, **kw)
                    if d[0] != "ok":
                        continue  # a refused dump shows nothing
                    shown = visible(frags, d[1])
                    if chan == "default-str" and kw.get("yaml_comments"):
                        # The help comment prints the *declared default*, which the parser's author wrote as a plain str here:
                        # not asserted (the statement speaks of secret strings, the author never made this one a SecretStr); counted.
                        raw_default_comment += bool(shown)
                        continue
                    kwname = ",".join(sorted(kw)) or "plain"
                    ok = h.check(not shown, f"{key}:dump-{fmt}:{kwname}", f"secret visible in dump: {d[1][:200]!r}", {**case, "format": fmt, "options": kw})
                    leaks += not ok
                # --print_config and save
                pc_args = ["--k=" + argv_text, "--print_config"] if chan == "argv" else ["--print_config"] if chan == "default-obj" else None
                if pc_args:
                    pc = io.StringIO()
                    with contextlib.redirect_stdout(pc), contextlib.redirect_stderr(pc):
                        try:
                            p.parse_args(pc_args)
                        except BaseException:  # noqa  (SystemExit(0) is the normal end of --print_config)
                            pass
                    if h.check("k:" in pc.getvalue() or "k" in pc.getvalue(), f"{key}:print_config:ran", "--print_config printed nothing", case):
                        h.check(not visible(frags, pc.getvalue()), f"{key}:print_config", f"secret visible in --print_config output: {pc.getvalue()[:200]!r}", case)
                out_file = os.path.join(tmp, "saved.yaml")
                sv = outcome(p.save, cfg.clone(), out_file, overwrite=True)
                if sv[0] == "ok":
                    with open(out_file) as f:
                        content = f.read()
                    h.check(not visible(frags, content), f"{key}:save", f"secret visible in saved file: {content[:200]!r}", case)
                h.nontrivial(("D", sname, chan, si))
    # class group with secret init parameters
    p = ArgumentParser(exit_on_error=False)
    p.add_class_arguments(SecretHolder, "holder")
    for si, secret in enumerate(SECRETS):
        if "\n" in secret:
            continue
        res = outcome(p.parse_args, ["--holder.token=" + secret, "--holder.tokens=" + json.dumps([secret + "Q7B"])])
        if res[0] != "ok" or not holds_secret(res[1].holder):
            continue
        stored += 1
        for fmt in ("yaml", "json", "toml"):
            d = outcome(p.dump, res[1], format=fmt)
            if d[0] == "ok":
                h.check(not visible(secret_fragments(secret), d[1]), f"c20:secret:class-group:argv:s{si}:dump-{fmt}", f"secret visible in dump: {d[1][:200]!r}", {"secret": secret})
        h.nontrivial(("D", "class-group", si))
    h.note(f"D: configurations holding a secret {stored}, leaks {leaks}; not asserted: dump(yaml_comments=True) showed a default that was declared as a "
           f"plain str for a SecretStr-typed argument in {raw_default_comment} cases")
    h.check(stored > 100, "c20:secret:vacuous", f"only {stored} configurations held a secret", None)


# --------------------------------------------------------------------------------------------------------------------
def part_f(h, tmp):
    """F: a pathlib value is the path, also when the option was declared with enable_path=True and the path names an existing readable file
    whose content would load as something: parse(dump(value)) == value from the command line and from a config file."""
    files = {"notes.txt": "v1.2\n", "num.txt": "42", "cfg.yaml": "a: 1\n", "empty.txt": "", "missing.txt": None}
    for name, content in files.items():
        if content is not None:
            with open(os.path.join(tmp, name), "w") as f:
                f.write(content)
    cwd = os.getcwd()
    os.chdir(tmp)
    try:
        for T in (pathlib.Path, pathlib.PosixPath):
            for enable in (True, False):
                p = ArgumentParser(exit_on_error=False)
                p.add_argument("--cfg", action=ActionConfigFile)
                p.add_argument("--k", type=T, enable_path=enable)
                for name in files:
                    for spelled in (name, os.path.join(tmp, name)):
                        want = T(spelled)
                        dumped = outcome(p.dump, Namespace(k=want))
                        if not h.check(dumped[0] == "ok", f"c20:pathlib-with-enable_path:{T.__name__}:{name}:dump-failed", f"dump failed: {dumped}", {"value": spelled}):
                            continue
                        with open("f.cfg", "w") as f:
                            f.write(dumped[1])
                        for chan, fn in (("argv", lambda: p.parse_args(["--k=" + spelled])), ("cfgfile", lambda: p.parse_args(["--cfg=f.cfg"])), ("object", lambda: p.parse_object({"k": spelled}))):
                            r = outcome(fn)
                            got = r[1].k if r[0] == "ok" else None
                            ok = r[0] == "ok" and type(got) is type(want) and got == want
                            what = "ok" if ok else "rejected" if r[0] != "ok" else "became-the-file's-content" if isinstance(got, pathlib.PurePath) else "became-" + type(got).__name__
                            h.check(ok, f"c20:pathlib-with-enable_path:{T.__name__}:enable_path={enable}:{name}:{'abs' if os.path.isabs(spelled) else 'rel'}:{chan}:{what}",
                                    f"{T.__name__}({spelled!r}) came back as {got!r} ({r[0]})", {"parser": f"add_argument('--k', type={T.__name__}, enable_path={enable})", "file content": files[name], "channel": chan})
                        h.nontrivial(("F", T.__name__, enable, name, os.path.isabs(spelled)))
    finally:
        os.chdir(cwd)


def part_e(h):
    """E: what an argument accepts does not depend on the default it was declared with (the statement's 'if and only if' has no
    clause about defaults): restricted types with no default, a valid default and a default outside the type, every candidate
    and the default's own spelling, through parse_object and argv."""
    email = [s for s in ("a@b.cd", "unset", "", "x", "a@b", "auto", "none") ]
    numbers = ["1", "0", "-1", "2", "0.5", "auto", "unset", "1e0", ""]
    grid = [
        ("Email", jt.Email, email_pred, email, ["a@b.cd", "unset", "auto", ""]),
        ("NotEmptyStr", jt.NotEmptyStr, lambda s: re.match(r"^.*[^ ].*$", s) is not None, ["x", "", " ", "unset"], ["x", "", " "]),
        ("PositiveInt", jt.PositiveInt, lambda s: model_number(int, ((">", 0),), "and", s)[0], numbers, ["1", "0", "auto", "-1", 0, 1]),
        ("ClosedUnitInterval", jt.ClosedUnitInterval, lambda s: model_number(float, ((">=", 0), ("<=", 1)), "and", s)[0], numbers, ["0.5", "2", "auto", 2.0, 0.5]),
    ]
    n = 0
    for name, T, pred, cands, defaults in grid:
        for d in ["<none>"] + defaults:
            res = outcome(parser_for, T, **({} if d == "<none>" else {"default": d}))
            if res[0] != "ok":
                continue  # a parser that refuses the declaration accepts nothing
            p = res[1]
            d_valid = d == "<none>" or bool(pred(d))
            for v in cands:
                for chan, fn, args in (("obj", p.parse_object, ({"k": v},)), ("argv", p.parse_args, (["--k=" + v],))):
                    exp = bool(pred(v))
                    r = outcome(fn, *args)
                    got = r[0] == "ok"
                    rel = "value-equal-to-the-default" if (d != "<none>" and v == d) else "value-differs-from-the-default"
                    key = f"c20:restricted-parse-with-default:{name}:default-{'valid' if d_valid else 'outside-the-type'}:{rel}:{chan}:{'accepted' if got else 'rejected'}-against-the-type"
                    # a declaration whose default is outside the type may make every parse fail on that default; what is never
                    # allowed is to accept a value the restriction excludes
                    h.check(got == exp or (not d_valid and not got), key, f"type {name}, default {d!r}: {v!r} accepted={got}, the restriction says {exp}",
                            {"parser": f"add_argument('--k', type={name}, default={d!r})", "channel": chan, "value": v, "outcome": repr(r)[:200]})
                    n += 1
            h.nontrivial(("E", name, repr(d)))
    h.note(f"E: {n} parses of restricted types declared with / without defaults")


def main():
    h = Harness("b20_scalar_types", rule="A: every multiset of 1..3 comparisons over 6 operators x 4 refs (thorough 5) x {int,float} x {and,or} (quick: triples over 3 "
                f"refs) x {len(number_candidates())} candidate values, called directly; the singletons, 3 compound sets and the 6 shipped types also through a parser "
                "(parse_object, argv); non-trivial = distinct restriction set resp. (type, parser). "
                f"B: {len(STRING_TYPES)} patterns x {len(string_candidates())} strings x {{call, parse_object, argv}}; non-trivial = distinct (pattern, string). "
                "C: a grid of values per registered type x {serializer/deserializer pair, parse_object, yaml and json dump re-read from a config file "
                "(thorough: and from a string), argv}, then List/Dict/Tuple/List[List] of the type; non-trivial = distinct (type, value). "
                f"D: 16 hint shapes x {len(SECRETS)} secrets x input channels (object, argv, string, default) x 9 dump variants + print_config + save; non-trivial = "
                "distinct (shape, channel, secret) whose parse result holds a SecretStr. "
                "F: pathlib.Path / PosixPath options with enable_path on / off x 5 files (text, number, mapping, empty, missing) x relative / absolute x {argv, config file, object}. "
                "E: 4 shipped restricted types x {no default, valid defaults, defaults outside the type} x 4-9 strings incl. the default's spelling x {parse_object, argv}.")
    # registries are restored at the end (types created here are not left behind in the imported module)
    snap = (dict(jt.registered_types), dict(jt.registered_type_handlers), dict(jt.registration_pending), set(vars(jt)))
    cwd = os.getcwd()
    try:
        with tempfile.TemporaryDirectory() as tmp:
            part_a(h)
            part_b(h)
            part_c(h, tmp)
            part_d(h, tmp)
            part_e(h)
            part_f(h, tmp)
    finally:
        os.chdir(cwd)
        jt.registered_types.clear()
        jt.registered_types.update(snap[0])
        jt.registered_type_handlers.clear()
        jt.registered_type_handlers.update(snap[1])
        jt.registration_pending.clear()
        jt.registration_pending.update(snap[2])
        for name in set(vars(jt)) - snap[3]:
            delattr(jt, name)
    refs = REFS_THOROUGH if h.thorough else REFS
    sys.exit(h.finish(exhaustive=True, bound=f"restriction multisets of size <= 3 over {{>,>=,<,<=,==,!=}} x refs int{refs[int]} / float{refs[float]} "
                      f"({'all' if h.thorough else 'triples over the last 3 refs'}) x {len(number_candidates())} values; {len(STRING_TYPES)} regexes x "
                      f"{len(string_candidates())} strings; registered types: timedelta grid 8 days x 8 seconds x 5 microseconds + extremes, complex 15x15 parts, "
                      "39 Decimals, 9 UUIDs, bytes (every 5th single byte, 32 look-alike base64 texts), ranges 6 starts x 7 stops x 6 steps, "
                      f"{len(LOOKALIKE)} look-alike paths"
                      + ("; + 400 seeded random values per type, every single byte, all 10^4 base64 texts of 4 characters over '019eE+xnul'" if h.thorough else "")
                      + f"; secrets: 16 shapes x {len(SECRETS)} secrets"))


if __name__ == "__main__":
    main()
