"""C07 bounded stand-in: equivalent ways of declaring a nested group behave identically.

For a field list F (names, types from the grammar G(1) / G(2), default or required) the group is declared under one key in
four styles on four otherwise identical parsers:

  dotted     parser.add_argument("--g.<name>", type=T, default=d | required=True)       (one call per field)
  dataclass  parser.add_argument("--g", type=<dataclass with the fields>)
  class      parser.add_class_arguments(<class whose __init__ has the fields>, "g")
  inner      parser.add_argument("--g", action=ActionParser(parser=<inner parser with --<name> options>))

and the same input is given to all four.  Contract (relational, as the property is): the accept/reject decision, the
as_dict() of the result (scalar types distinguished: 1 is not True) and the dump() text are the same on all four.
The oracle is the agreement itself - no second call into the parser under test is used to decide what is "right".

Inputs per field: every string of a pool ("looks like another type" strings included) through --g.f=<s>, --g.f+=<s>,
APP_G__F=<s> and a YAML config line; every object of a pool through parse_object, a JSON config string, --cfg=<json>,
the whole-group option --g=<json> and the whole-group environment variable APP_G; plus mixes on 2-3 field lists
(whole-group before/after a dotted key, missing required field, unknown key, non-dict / null group, two sources).

Violation key: c07:<aspect>:<partition of the styles>:<group key>:<field list>:<channel>:<value>
  aspect    decision | value | dump
  partition e.g. dotted=rej|dataclass+class+inner=ok   (decision)   or   dotted|dataclass+class+inner   (value / dump)
"""
import dataclasses
import enum
import itertools
import json
import os
import sys
import tempfile
import warnings
from typing import Dict, List, Literal, Optional, Set, Tuple, Union

from bounded.common import Harness, outcome

from jsonargparse import ActionParser, ArgumentParser, Namespace
from jsonargparse.typing import Path_fr, PositiveInt

STYLES = ("dotted", "dataclass", "class", "inner")
REQ = "<required>"


class Color(enum.Enum):
    A = 1
    B = 2


Lit = Literal["a", "b", 1]


# --------------------------------------------------------------------------------------------- type grammar
def tcode(t):
    names = {str: "str", int: "int", float: "float", bool: "bool", Lit: "Lit", Color: "Enum", PositiveInt: "PosInt", Path_fr: "Pfr",
             type(None): "None"}
    if t in names:
        return names[t]
    origin = getattr(t, "__origin__", None)
    args = getattr(t, "__args__", ())
    if origin is Union:
        if len(args) == 2 and args[1] is type(None):
            return "O[%s]" % tcode(args[0])
        return "U[%s]" % ",".join(tcode(a) for a in args)
    if origin in (list, List):
        return "L[%s]" % tcode(args[0])
    if origin in (dict, Dict):
        return "D[%s]" % tcode(args[1])
    if origin in (set, Set):
        return "S[%s]" % tcode(args[0])
    if origin in (tuple, Tuple):
        return "T[%s]" % ",".join("..." if a is Ellipsis else tcode(a) for a in args)
    return str(t)


LEAVES = [str, int, float, bool, Lit, Color, PositiveInt, Path_fr]


def grammar(depth):
    g1 = list(LEAVES)
    g1 += [Optional[x] for x in LEAVES]
    for pair in ((int, str), (int, float), (bool, str), (bool, int), (float, str)):
        for perm in itertools.permutations(pair):
            g1.append(Union[perm])
    for perm in itertools.permutations((int, float, str)):
        g1.append(Union[perm])
    g1 += [List[x] for x in (str, int, float, bool, Lit, Color)]
    g1 += [Dict[str, x] for x in (int, str, float)]
    g1 += [Tuple[int, str], Tuple[int], Tuple[int, ...], Tuple[str, float, bool]]
    g1 += [Set[int], Set[str]]
    if depth < 2:
        return g1
    g2 = [List[Optional[int]], List[List[int]], Dict[str, List[int]], Optional[List[str]], Union[List[int], str], Union[str, List[int]],
          List[Union[int, str]], List[Union[str, int]], Dict[str, Optional[float]], Tuple[List[int], str], Optional[Dict[str, int]],
          List[Dict[str, int]], Union[int, List[str], None], Optional[Tuple[int, str]], List[Tuple[int, str]], Set[Optional[int]],
          Dict[str, Union[int, str]], Optional[Union[int, str]], List[Path_fr], Optional[Color], List[PositiveInt], Dict[str, Color]]
    return g1 + g2


def default_for(t):
    """A conforming default value for a type (the same object kind in every style)."""
    if t is str:
        return "d"
    if t in (int, PositiveInt):
        return 1
    if t is float:
        return 0.5
    if t is bool:
        return False
    if t is Lit:
        return "a"
    if t is Color:
        return Color.A
    if t is Path_fr:
        return REQ  # no sensible constant default for an existing-file path: such fields are always required
    origin = getattr(t, "__origin__", None)
    args = getattr(t, "__args__", ())
    if origin is Union:
        if type(None) in args:
            return None
        return default_for(args[0])
    if origin in (list, List):
        d = default_for(args[0])
        return [] if d is REQ else [d]
    if origin in (dict, Dict):
        return {"k": default_for(args[1])} if default_for(args[1]) is not REQ else {}
    if origin in (set, Set):
        return {default_for(args[0])}
    if origin in (tuple, Tuple):
        if len(args) == 2 and args[1] is Ellipsis:
            return (default_for(args[0]),)
        return tuple(default_for(a) for a in args)
    raise ValueError(t)


# --------------------------------------------------------------------------------------------- value pools
STR_POOL_QUICK = ["3", "-1", "1e3", ".5", "1_000", "010", "0x10", "true", "yes", "null", "", "abc", "a", "A", "[1, 2]", "[a, b]",
                  '{"k": 1}', "{a: 1}", "f.txt", "[3, \"x\"]"]
STR_POOL_MORE = ["0", "._", "1:30", "True", "no", "on", "~", " ", "-", "=", "nan", ".inf", "2020-01-01", "a: b", "*x", "&a", "1.0", "b",
                 "B", "missing.txt", "[null]", "[[1]]", '{"k": [1]}', "[1, 2, 3]", '"3"', "[true]", "0.0", "-0", "1e400", "[f.txt]"]
OBJ_POOL_QUICK = [3, -1, 1.5, True, None, "abc", "3", "a", "A", [1, 2], ["a", "b"], {"k": 1}, {"k": "v"}, [3, "x"], "f.txt", [], {}]
OBJ_POOL_MORE = [0, "true", "", "1e3", [None], [[1]], {"k": [1]}, [1, 2, 3], 1e3, "B", 1, "b", [True], {"k": None}, ["f.txt"], "null",
                 {"k": 1.5}, [1.5], "missing.txt", {"a": 1, "b": 2}, [{"k": 1}], ["x", 1.5, True]]


def vstr(v):
    s = v if isinstance(v, str) else json.dumps(v, sort_keys=True)
    return s if len(s) <= 40 else s[:37] + "..."


# --------------------------------------------------------------------------------------------- the four declaration styles
def make_dataclass(fields):
    spec = []
    for name, t, d in fields:
        if d is REQ:
            spec.append((name, t))
        elif isinstance(d, (list, dict, set)):
            spec.append((name, t, dataclasses.field(default_factory=lambda d=d: type(d)(d))))
        else:
            spec.append((name, t, dataclasses.field(default=d)))
    return dataclasses.make_dataclass("GroupData", spec)


def make_class(fields):
    ns = {}
    params = []
    for name, t, d in fields:
        ns["T_" + name] = t
        if d is REQ:
            params.append("%s: T_%s" % (name, name))
        else:
            ns["D_" + name] = d
            params.append("%s: T_%s = D_%s" % (name, name, name))
    exec("class GroupClass:\n    def __init__(self, %s):\n        pass\n" % ", ".join(params), ns)
    return ns["GroupClass"]


def build(style, fields, key):
    p = ArgumentParser(exit_on_error=False, prog="app", env_prefix="APP")
    p.add_argument("--cfg", action="config")
    p.add_argument("--top", type=int, default=0)
    if style == "dotted":
        for name, t, d in fields:
            kw = {"required": True} if d is REQ else {"default": d}
            p.add_argument("--%s.%s" % (key, name), type=t, **kw)
    elif style == "dataclass":
        p.add_argument("--" + key, type=make_dataclass(fields))
    elif style == "class":
        p.add_class_arguments(make_class(fields), key)
    else:
        inner = ArgumentParser(exit_on_error=False)
        for name, t, d in fields:
            kw = {"required": True} if d is REQ else {"default": d}
            inner.add_argument("--" + name, type=t, **kw)
        p.add_argument("--" + key, action=ActionParser(parser=inner))
    return p


def fields_sig(fields):
    return ",".join("%s:%s%s" % (n, tcode(t), "!" if d is REQ else "") for n, t, d in fields)


# --------------------------------------------------------------------------------------------- inputs
def nest(key, value):
    """{'a': {'b': value}} for key 'a.b'."""
    for part in reversed(key.split(".")):
        value = {part: value}
    return value


def env_name(key, name=None):
    return ("APP_" + key.replace("-", "_").replace(".", "__") + ("__" + name if name else "")).upper()


def yaml_doc(key, entries):
    """A YAML config whose group <key> holds the (name, raw unquoted text) entries."""
    parts = key.split(".")
    lines = ["%s%s:" % ("  " * i, p) for i, p in enumerate(parts)]
    lines += ["%s%s: %s" % ("  " * len(parts), n, text) for n, text in entries]
    return "\n".join(lines) + "\n"


def inputs_for(fields, key, str_pool, obj_pool, rich):
    """-> list of (channel, value label, call descriptor).  call descriptor = (method, payload, env)"""
    out = []
    req_fill = {}
    for name, t, d in fields:
        if d is REQ:
            req_fill[name] = fill_value(t)
    probe = fields[0][0]

    def others(skip):
        return {n: v for n, v in req_fill.items() if n not in skip}

    def argv_others(skip):
        return ["--%s.%s=%s" % (key, n, v if isinstance(v, str) else json.dumps(v)) for n, v in others(skip).items()]

    for s in str_pool:
        out.append(("argv-dotted", s, ("args", ["--%s.%s=%s" % (key, probe, s)] + argv_others({probe}), {})))
        out.append(("env-dotted", s, ("args", argv_others({probe}), {env_name(key, probe): s})))
        if rich:
            out.append(("argv-append", s, ("args", ["--%s.%s+=%s" % (key, probe, s)] + argv_others({probe}), {})))
            doc = yaml_doc(key, [(probe, s)] + [(n, json.dumps(v)) for n, v in others({probe}).items()])
            out.append(("yaml-string", s, ("string", doc, {})))
    for v in obj_pool:
        group = dict(others({probe}))
        group[probe] = v
        doc = nest(key, group)
        out.append(("object", vstr(v), ("object", doc, {})))
        out.append(("json-string", vstr(v), ("string", json.dumps(doc), {})))
        out.append(("argv-group", vstr(v), ("args", ["--%s=%s" % (key, json.dumps(group))], {})))
        if rich:
            out.append(("argv-cfg", vstr(v), ("args", ["--cfg=" + json.dumps(doc)], {})))
            out.append(("env-group", vstr(v), ("args", [], {env_name(key): json.dumps(group)})))
    return out


def fill_value(t):
    """A conforming value used to satisfy required fields that a probe does not target."""
    if t is Path_fr:
        return "f.txt"
    origin = getattr(t, "__origin__", None)
    args = getattr(t, "__args__", ())
    if origin in (list, List) and args[0] is Path_fr:
        return ["f.txt"]
    d = default_for(t)
    if isinstance(d, Color):
        return "A"
    if isinstance(d, (set, tuple)):
        return [x.name if isinstance(x, Color) else x for x in d]
    if isinstance(d, list):
        return [x.name if isinstance(x, Color) else x for x in d]
    return d


def mixed_inputs(fields, key):
    """Mixes over a 2-3 field list: whole group and dotted keys in both orders, two sources, missing / unknown / malformed."""
    out = []
    vals = {n: fill_value(t) for n, t, d in fields}
    names = [n for n, t, d in fields]
    js = json.dumps

    def dotted(n, v=None):
        v = vals[n] if v is None else v
        return "--%s.%s=%s" % (key, n, v if isinstance(v, str) else js(v))

    full = js(vals)
    part = js({n: vals[n] for n in names[:1]})
    rest = [dotted(n) for n in names[1:]]
    out.append(("mix", "all-dotted", ("args", [dotted(n) for n in names], {})))
    out.append(("mix", "all-dotted-reversed", ("args", [dotted(n) for n in reversed(names)], {})))
    out.append(("mix-group", "group-full", ("args", ["--%s=%s" % (key, full)], {})))
    out.append(("mix-group", "group-part+dotted", ("args", ["--%s=%s" % (key, part)] + rest, {})))
    out.append(("mix-group", "dotted+group-part", ("args", rest + ["--%s=%s" % (key, part)], {})))
    out.append(("mix-group", "group-full+dotted-override", ("args", ["--%s=%s" % (key, full), dotted(names[-1])], {})))
    out.append(("mix-group", "dotted+group-full-override", ("args", [dotted(names[-1]), "--%s=%s" % (key, full)], {})))
    out.append(("mix-group", "group-twice", ("args", ["--%s=%s" % (key, part), "--%s=%s" % (key, full)], {})))
    out.append(("mix", "only-first", ("args", [dotted(names[0])], {})))
    out.append(("mix", "only-last", ("args", [dotted(names[-1])], {})))
    out.append(("mix", "nothing", ("args", [], {})))
    out.append(("mix", "object-full", ("object", nest(key, dict(vals)), {})))
    out.append(("mix", "object-part", ("object", nest(key, {names[0]: vals[names[0]]}), {})))
    out.append(("mix", "object-unknown-key", ("object", nest(key, dict(vals, zz=1)), {})))
    out.append(("mix", "object-group-null", ("object", nest(key, None), {})))
    out.append(("mix", "object-group-scalar", ("object", nest(key, 3), {})))
    out.append(("mix", "object-group-list", ("object", nest(key, [1]), {})))
    out.append(("mix", "object-group-empty", ("object", nest(key, {}), {})))
    out.append(("mix", "string-full", ("string", js(nest(key, dict(vals))), {})))
    out.append(("mix", "string-unknown-key", ("string", js(nest(key, dict(vals, zz=1))), {})))
    out.append(("mix", "string-group-null", ("string", js(nest(key, None)), {})))
    out.append(("mix", "cfg+dotted", ("args", ["--cfg=" + js(nest(key, {names[0]: vals[names[0]]}))] + rest, {})))
    out.append(("mix", "dotted+cfg", ("args", rest + ["--cfg=" + js(nest(key, {names[0]: vals[names[0]]}))], {})))
    out.append(("mix", "cfg-full+dotted-override", ("args", ["--cfg=" + js(nest(key, dict(vals))), dotted(names[-1])], {})))
    out.append(("mix", "env-all", ("args", [], {env_name(key, n): (vals[n] if isinstance(vals[n], str) else js(vals[n])) for n in names})))
    out.append(("mix", "env-first+dotted", ("args", rest, {env_name(key, names[0]): (vals[names[0]] if isinstance(vals[names[0]], str) else js(vals[names[0]]))})))
    out.append(("mix", "env+dotted-same-key", ("args", [dotted(n) for n in names], {env_name(key, names[-1]): "zzz"})))
    out.append(("mix-group", "env-group-full", ("args", [], {env_name(key): full})))
    out.append(("mix-group", "env-group+dotted", ("args", rest, {env_name(key): part})))
    # whole-group variable and a member variable together: the member setting wins in every style
    for n_, t_, alt in fields:
        if alt is not None and alt != vals[n_] and not isinstance(alt, (list, dict)) and type(alt) is type(vals[n_]):
            out.append(("mix-group", "env-group-full+env-member", ("args", [], {env_name(key): full, env_name(key, n_): (alt if isinstance(alt, str) else js(alt))})))
            break
    out.append(("mix", "argv-unknown-dotted", ("args", [dotted(n) for n in names] + ["--%s.zz=1" % key], {})))
    out.append(("mix-group", "argv-group-unknown-key", ("args", ["--%s=%s" % (key, js(dict(vals, zz=1)))], {})))
    out.append(("mix-group", "argv-group-scalar", ("args", ["--%s=3" % key] + [dotted(n) for n in names], {})))
    out.append(("mix-group", "argv-group-null", ("args", [dotted(n) for n in names] + ["--%s=null" % key], {})))
    return out


# --------------------------------------------------------------------------------------------- running and comparing
def norm(x):
    if isinstance(x, Namespace):
        x = x.as_dict()
    if isinstance(x, dict):
        return {str(k): norm(v) for k, v in x.items()}
    if isinstance(x, (list, tuple)):
        return [type(x).__name__] + [norm(v) for v in x]
    if isinstance(x, (set, frozenset)):
        return ["set"] + sorted((norm(v) for v in x), key=repr)
    if isinstance(x, enum.Enum):
        return "Enum:" + x.name
    if x is None or isinstance(x, (bool, int, float, str)):
        return "%s:%r" % (type(x).__name__, x)
    return "%s:%s" % (type(x).__name__, x)


def run_one(parser, call):
    method, payload, env = call
    saved = dict(os.environ)
    try:
        for k in [k for k in os.environ if k.startswith("APP_")]:
            del os.environ[k]
        os.environ.update(env)
        kw = {"with_meta": False}
        if env:
            kw["env"] = True
        if method == "args":
            res = outcome(parser.parse_args, list(payload), **kw)
        elif method == "string":
            res = outcome(parser.parse_string, payload, **kw)
        else:
            res = outcome(parser.parse_object, json.loads(json.dumps(payload)), **kw)
        if res[0] != "ok":
            return {"decision": "rej", "error": list(res[1:])}
        cfg = res[1]
        d = outcome(parser.dump, cfg)
        return {"decision": "ok", "value": norm(cfg), "dump": d[1] if d[0] == "ok" else "<dump failed: %s>" % (d[1],)}
    finally:
        os.environ.clear()
        os.environ.update(saved)


def partition(labels):
    """labels: {style: hashable} -> canonical 'a+b|c+d' string in STYLES order."""
    groups = []
    for st in [s for s in STYLES if s in labels]:
        for g in groups:
            if labels[g[0]] == labels[st]:
                g.append(st)
                break
        else:
            groups.append([st])
    return groups


def compare(outs, styles=STYLES):
    """-> None | (aspect, partition string)"""
    groups = partition({st: outs[st]["decision"] for st in styles})
    if len(groups) > 1:
        return "decision", "|".join("+".join(g) + "=" + outs[g[0]]["decision"] for g in groups)
    if outs[styles[0]]["decision"] != "ok":
        return None
    for aspect in ("value", "dump"):
        groups = partition({st: json.dumps(outs[st][aspect], sort_keys=True, default=str) for st in styles})
        if len(groups) > 1:
            return aspect, "|".join("+".join(g) for g in groups)
    return None


def work(job):
    """One field list: build the four parsers, run every input on all of them, compare."""
    key, fields_idx, tier_rich, pools = job
    fields = FIELD_LISTS[fields_idx]
    str_pool, obj_pool, mixed = pools
    recs = []
    saved_cwd = os.getcwd()
    with tempfile.TemporaryDirectory() as tmp, warnings.catch_warnings():
        warnings.simplefilter("ignore")
        os.chdir(tmp)
        try:
            with open("f.txt", "w") as f:
                f.write("x")
            try:
                parsers = {st: build(st, fields, key) for st in STYLES}
            except Exception as ex:  # a style cannot even declare the group: reported once
                built = {}
                for st in STYLES:
                    r = outcome(build, st, fields, key)
                    built[st] = "ok" if r[0] == "ok" else "rej"
                groups = partition(built)
                recs.append({"ok": False, "aspect": "declare", "partition": "|".join("+".join(g) + "=" + built[g[0]] for g in groups),
                             "channel": "declare", "value": "-", "case": {"fields": fields_sig(fields), "key": key, "error": repr(ex)[:300]},
                             "decision": "rej", "whole_group_class": False})
                return fields_idx, key, recs
            ins = mixed_inputs(fields, key) if mixed else inputs_for(fields, key, str_pool, obj_pool, tier_rich)
            for channel, label, call in ins:
                # an input that uses the whole-group option / environment variable: the dotted style has none (known, DESIGN 9), so
                # the other three are compared among themselves first; a remaining dotted-vs-rest difference is keyed as 'whole-group'
                whole = channel in ("argv-group", "env-group", "mix-group")

                def judge(parsers):
                    outs = {st: run_one(parsers[st], call) for st in STYLES}
                    d = compare(outs, STYLES[1:]) if whole else None
                    if d is not None:
                        return outs, d, False
                    d = compare(outs)
                    return outs, d, whole and d is not None

                outs, diff, known_class = judge(parsers)
                if diff is not None:
                    # confirm on freshly built parsers (history effects belong to C09)
                    outs, diff, known_class = judge({st: build(st, fields, key) for st in STYLES})
                decisions = {outs[st]["decision"] for st in STYLES}
                rec = {"ok": diff is None, "channel": channel, "value": label, "decision": decisions.pop() if len(decisions) == 1 else "mixed",
                       "whole_group_class": known_class}
                if diff is not None:
                    method, payload, env = call
                    rec.update(aspect=diff[0], partition=diff[1], case={
                        "group_key": key, "fields": [(n, tcode(t), "required" if d is REQ else repr(d)) for n, t, d in fields],
                        "call": "parse_%s(%r%s)" % (method, payload, ", env=True" if env else ""), "env": env,
                        "outcomes": {st: (outs[st] if outs[st]["decision"] == "rej" else {"value": outs[st]["value"], "dump": outs[st]["dump"]}) for st in STYLES}})
                recs.append(rec)
        finally:
            os.chdir(saved_cwd)
    return fields_idx, key, recs


FIELD_LISTS = []


def field_lists(thorough):
    """-> list of (group key, fields, mixed inputs?, all channels?)"""
    G = grammar(2 if thorough else 1)
    jobs = []
    # (A) one field of every type, with a default where the type has one (else required)
    for t in G:
        jobs.append(("g", [("f", t, default_for(t))], False, True))
    # (B) one required field (quick: a subset of the types), together with a defaulted neighbour
    # (a parameter whose type admits None and that has no default is *not* required in the signature styles - by design, see
    #  _add_signature_parameter - so "required" is only paired with types that do not admit None)
    req_types = G if thorough else [int, str, bool, Union[int, str], Union[str, int], List[int], Dict[str, int], Tuple[int, str], Color, Set[int]]
    for t in req_types:
        if default_for(t) is not None and default_for(t) is not REQ:
            jobs.append(("g", [("f", t, REQ), ("n", int, 7)], False, False))
    # (C) mixes on 2-3 field lists
    multi = [
        [("r", int, REQ), ("s", List[str], ["x"]), ("o", Optional[float], None)],
        [("n", int, 1), ("s", List[str], ["x"])],
        [("a", str, REQ), ("b", bool, REQ)],
        [("u", Union[int, str], 1), ("v", Union[str, int], "d"), ("d", Dict[str, int], {"k": 1})],
        [("e", Color, Color.A), ("l", Lit, "a"), ("t", Tuple[int, str], (1, "d"))],
        [("b_c", int, 1), ("d_e", Optional[str], None)],
    ]
    if thorough:
        multi += [
            [("p", Path_fr, REQ), ("n", PositiveInt, 1)],
            [("x", List[Optional[int]], [None]), ("y", Set[int], {1}), ("z", float, 0.5)],
            [("m", Dict[str, List[int]], {"k": [1]}), ("q", Optional[List[str]], None), ("w", Union[int, List[str], None], None)],
        ]
    for fields in multi:
        jobs.append(("g", fields, True, True))
    # (D) other group keys: nested deeper, with an underscore, with a dash
    for key in ("a.b", "my_g") + (("my-g", "a.b.c") if thorough else ("my-g",)):
        jobs.append((key, [("f", int, 1)], False, True))
        jobs.append((key, [("r", int, REQ), ("s", List[str], ["x"])], True, True))
        if thorough:
            jobs.append((key, [("f", Optional[List[str]], None)], False, True))
            jobs.append((key, [("f", Dict[str, int], {"k": 1})], False, True))
    return jobs


def main():
    h = Harness("b07_group_styles", rule="every field list (one field of every type of the grammar, default or required; 2-3 field mixes; group keys g, a.b, "
                "my_g, my-g) declared in the four styles x every input of the pools through argv dotted / append / whole-group, config "
                "string, --cfg, environment (dotted and whole-group) and object, plus the listed mixes; one evaluation = one input "
                "compared across the four parsers (decision, as_dict with scalar types, dump text); non-trivial = distinct "
                "(group key, field list, channel, value)")
    import multiprocessing

    jobs_spec = field_lists(h.thorough)
    str_pool = STR_POOL_QUICK + (STR_POOL_MORE if h.thorough else [])
    obj_pool = OBJ_POOL_QUICK + (OBJ_POOL_MORE if h.thorough else [])
    FIELD_LISTS[:] = [f for _, f, _, _ in jobs_spec]
    jobs = [(key, i, rich or h.thorough, (str_pool, obj_pool, mixed)) for i, (key, f, mixed, rich) in enumerate(jobs_spec)]
    workers = max(1, min(16, os.cpu_count() or 1))
    with multiprocessing.get_context("fork").Pool(workers) as pool:
        results = pool.map(work, jobs, chunksize=1)
    stats = {"ok": 0, "rej": 0, "mixed": 0}
    groups = {}
    for idx, key, recs in results:
        fields = FIELD_LISTS[idx]
        fsig = fields_sig(fields)
        for rec in recs:
            stats[rec["decision"]] += 1
            sig = "%s:%s:%s:%s" % (key, fsig, rec["channel"], rec["value"])
            if h.only and h.only not in sig:
                continue
            h.nontrivial(sig)
            if rec["ok"]:
                h.check(True, "")
                continue
            if rec["whole_group_class"]:
                # one key per (aspect, partition, channel, group key): the defect is the missing whole-group option of the dotted
                # style, whatever the field list and the value are; the first witness is kept in the case
                k = "c07:%s:%s:whole-group:%s:%s" % (rec["aspect"], rec["partition"], rec["channel"], key)
            else:
                k = "c07:%s:%s:%s" % (rec["aspect"], rec["partition"], sig)
            groups.setdefault((rec["aspect"], rec["partition"], rec["channel"]), []).append(k)
            h.check(False, k[:148], "the four declaration styles disagree on the %s: %s" % (rec["aspect"], rec["partition"]), rec["case"])
            if len(h.samples) < 2:
                h.sample(rec["case"])
    h.note("outcomes (all four agree on): accepted %d, rejected %d; decision differs: %d" % (stats["ok"], stats["rej"], stats["mixed"]))
    h.note("disagreements by (aspect, partition, channel): " + "; ".join("%s:%s:%s -> %d" % (k + (len(v),)) for k, v in sorted(groups.items())))
    if not h.only:
        h.check(stats["ok"] > 0 and stats["rej"] > 0, "c07:vacuity", "accepted and rejected inputs must both occur", stats)
    sys.exit(h.finish(exhaustive=True, bound=(
        "types: grammar G(%d) (%d types); string pool %d, object pool %d values; %d field lists; group keys g, a.b, my_g, my-g%s" % (
            2 if h.thorough else 1, len(grammar(2 if h.thorough else 1)), len(str_pool), len(obj_pool), len(jobs), ", a.b.c" if h.thorough else ""))))


if __name__ == "__main__":
    main()
