"""C18 bounded stand-in: save never destroys data (all-or-nothing on failure, no silent overwrite, saved = parsed).

A contract on the real `ArgumentParser.save`, evaluated on a directory snapshot (independent oracle: bytes + inode of
every file below a scratch root, taken with os.walk before and after the call):

  C1 overwrite clause   not overwrite  =>  every file that existed before the call is byte-identical, same inode;
  C2 all-or-nothing     save raised because the configuration is invalid or cannot be serialised
                        =>  snapshot' == snapshot (nothing created, truncated, changed);
  C3 round trip         save returned on a valid configuration  =>  a fresh parser's parse_path(target) equals the
                        configuration (compared as plain nested dicts, metadata ignored) - also for configurations
                        that were loaded from separate sub-files, in single-file and multi-file mode.

Enumerated: 11 (13 thorough) configuration scenarios over 6 (7 thorough) parser shapes (flat typed values, dict/sub-parser sub-files
- in sub-directories, nested two deep, given on the command line, with equal base names, colliding with the target
name -, sub-parser with restricted/enum values, subclass config, save_path_content, json-schema + jsonnet)
x {single-file, multi-file} x overwrite on/off x {fresh output directory with nothing / the main file / one sub-file
/ everything pre-existing (foreign or empty content; thorough: the target is a symlink to a victim file), saving in
place over the inputs}
x failure: none | each key made invalid in turn | an unserialisable value at each untyped position |
  injected at the k-th call of validate / dump_using_format / open-for-write inside save, for every k.
Injected open() failures model a failing write, for which the statement only promises C1.

Not asserted (the statement is silent; counted in the notes): files left behind when save refuses to overwrite a
*later* sub-file; in-place save with save_path_content and overwrite=True empties the referenced file.
"""
import builtins
import os
import shutil
import sys
import tempfile
from calendar import Calendar
from enum import Enum
from typing import Dict, List, Optional

from bounded.common import Harness, outcome

import jsonargparse._core as core
from jsonargparse import ActionConfigFile, ActionParser, ArgumentParser, Namespace
from jsonargparse._util import Path
from jsonargparse.typing import Path_fr, PositiveInt


class Col(Enum):
    red = 1
    blue = 2


class Injected(Exception):
    pass


# ----------------------------------------------------------------------------------------------------------------------
# parser shapes
def shape_flat():
    p = ArgumentParser(exit_on_error=False)
    p.add_argument("--cfg", action=ActionConfigFile)
    p.add_argument("--a", type=int, default=0)
    p.add_argument("--s", type=str, default="x")
    p.add_argument("--l", type=List[int], default=[1])
    p.add_argument("--p", type=PositiveInt, default=1)
    p.add_argument("--o", type=Optional[float], default=None)
    p.add_argument("--c", type=Col, default=Col.red)
    p.add_argument("--g.x", type=int, default=0)
    p.add_argument("--g.y", type=str, default="y")
    p.add_argument("--free")
    return p


def shape_nullable():
    p = ArgumentParser(exit_on_error=False)
    p.add_argument("--cfg", action=ActionConfigFile)
    p.add_argument("--a", type=Optional[int], default=5)  # null is a value here, and it is not the default
    p.add_argument("--b", type=int, default=1)
    p.add_argument("--free")
    return p


def shape_sub():
    sub = ArgumentParser(exit_on_error=False)
    sub.add_argument("--n", type=int, default=1)
    sub.add_argument("--t", type=str, default="t")
    sub.add_argument("--dd", type=Dict[str, int], default={}, enable_path=True)
    sub.add_argument("--free")
    p = ArgumentParser(exit_on_error=False)
    p.add_argument("--cfg", action=ActionConfigFile)
    p.add_argument("--a", type=int, default=0)
    p.add_argument("--d", type=Dict[str, int], default={}, enable_path=True)
    p.add_argument("--e", type=Dict[str, int], default={}, enable_path=True)
    p.add_argument("--sub", action=ActionParser(parser=sub))
    p.add_argument("--free")
    return p


def shape_typed():
    sub = ArgumentParser(exit_on_error=False)
    sub.add_argument("--n", type=PositiveInt, default=1)
    sub.add_argument("--c", type=Col, default=Col.red)
    p = ArgumentParser(exit_on_error=False)
    p.add_argument("--cfg", action=ActionConfigFile)
    p.add_argument("--a", type=int, default=0)
    p.add_argument("--d", type=Dict[str, int], default={}, enable_path=True)
    p.add_argument("--sub", action=ActionParser(parser=sub))
    return p


def shape_subclass():
    p = ArgumentParser(exit_on_error=False)
    p.add_argument("--cfg", action=ActionConfigFile)
    p.add_argument("--a", type=int, default=0)
    p.add_subclass_arguments(Calendar, "cal")
    return p


def shape_pathcontent():
    p = ArgumentParser(exit_on_error=False)
    p.add_argument("--cfg", action=ActionConfigFile)
    p.add_argument("--a", type=int, default=0)
    p.add_argument("--the.path", type=Path_fr)
    p.save_path_content.add("the.path")
    return p


def shape_schema():
    from jsonargparse import ActionJsonnet, ActionJsonSchema

    p = ArgumentParser(exit_on_error=False)
    p.add_argument("--cfg", action=ActionConfigFile)
    p.add_argument("--a", type=int, default=0)
    schema = {"type": "object", "properties": {"a": {"type": "number"}, "b": {"type": "number"}}}
    p.add_argument("--schema", default={"a": 1, "b": 2}, action=ActionJsonSchema(schema=schema))
    p.add_argument("--jsonnet", default={"c": 3, "d": 4}, action=ActionJsonnet(ext_vars=None))
    return p


def setter(key, value):
    """Mutation: cfg[key] = value, where the last components may address an item of a dict value."""

    def apply(cfg):
        parts = key.split(".")
        cur = cfg
        for part in parts[:-1]:
            cur = cur[part]
        cur[parts[-1]] = value

    return apply


class Scenario:
    def __init__(self, name, shape, files=None, argv=None, invalid=(), unser=(), target="main.yaml", roundtrip=True, thorough_only=False):
        self.name, self.shape, self.files, self.argv = name, shape, files or {}, argv
        self.invalid, self.unser, self.target, self.roundtrip, self.thorough_only = list(invalid), list(unser), target, roundtrip, thorough_only

    def load(self, parser):
        """cwd is the scratch root; inputs live in ./in"""
        if self.argv is not None:
            return parser.parse_args(self.argv)
        return parser.parse_path(os.path.join("in", "main.yaml"), with_meta=True)


SUB_FILES = {
    "main.yaml": "a: 2\nd: d.yaml\ne: e.json\nsub: sub.yaml\n",
    "d.yaml": "x: 1\ny: 2\n",
    "e.json": '{"z": 3}',
    "sub.yaml": "n: 5\nt: hi\ndd: dd.yaml\n",
    "dd.yaml": "k: 9\n",
}
SUB_INVALID = [("a", "bad"), ("d.x", "bad"), ("e.z", "bad"), ("sub.n", "bad"), ("sub.dd.k", "bad")]
SUB_UNSER = [("free", "OBJECT"), ("sub.free", "OBJECT")]


def scenarios():
    out = [
        Scenario("flat", shape_flat, argv=["--a=3", "--s=hello", "--l=[1, 2]", "--p=2", "--o=1.5", "--c=blue", "--g.x=7", "--g.y=why"],
                 invalid=[("a", "bad"), ("l", [1, "x"]), ("p", -1), ("o", "zz"), ("c", "green"), ("g.x", "q")], unser=[("free", "OBJECT")]),
        Scenario("flat-defaults", shape_flat, argv=[], invalid=[("g.x", "q")], unser=[("free", "OBJECT")]),
        Scenario("explicit-null-over-a-default", shape_nullable, argv=["--a=null", "--b=2"], invalid=[("b", "bad")], unser=[("free", "OBJECT")]),
        Scenario("subfiles", shape_sub, files=SUB_FILES, invalid=SUB_INVALID, unser=SUB_UNSER),
        Scenario("subfiles-in-subdirs", shape_sub, files={"main.yaml": "a: 2\nd: x/d.yaml\ne: y/e.json\nsub: deep/er/sub.yaml\n", "x/d.yaml": "x: 1\n", "y/e.json": '{"z": 3}',
                                                          "deep/er/sub.yaml": "n: 5\ndd: ../dd.yaml\n", "deep/dd.yaml": "k: 9\n"}, invalid=[("sub.n", "bad")], unser=[("sub.free", "OBJECT")]),
        Scenario("subfiles-same-basename", shape_sub, files={"main.yaml": "a: 2\nd: x/d.yaml\ne: y/d.yaml\n", "x/d.yaml": "x: 1\n", "y/d.yaml": "y: 2\n"}, invalid=[("a", "bad")]),
        Scenario("subfiles-target-named-like-subfile", shape_sub, files={"main.yaml": "a: 2\nd: d.yaml\n", "d.yaml": "x: 1\n"}, target="d.yaml", invalid=[("a", "bad")]),
        Scenario("subfiles-from-argv", shape_sub, files=SUB_FILES, argv=["--a=4", "--d", "in/d.yaml", "--sub", "in/sub.yaml", "--sub.t=over"], invalid=[("sub.n", "bad")], unser=[("free", "OBJECT")]),
        Scenario("typed-subparser", shape_typed, files={"main.yaml": "a: 2\nd: d.yaml\nsub: sub.yaml\n", "d.yaml": "x: 1\n", "sub.yaml": "n: 5\nc: blue\n"}, invalid=[("sub.n", -3), ("a", "bad")]),
        Scenario("subclass", shape_subclass, files={"main.yaml": "a: 1\ncal: cal.yaml\n", "cal.yaml": "class_path: calendar.Calendar\ninit_args:\n  firstweekday: 2\n"},
                 invalid=[("a", "bad"), ("cal.init_args.firstweekday", "bad")]),
        Scenario("pathcontent", shape_pathcontent, files={"pathdir/file.txt": "precious file content\n", "main.yaml": "a: 1\n"}, argv=["--a=1", "--the.path=in/pathdir/file.txt"],
                 invalid=[("a", "bad")], roundtrip=False),
        Scenario("schema-jsonnet", shape_schema, files={"main.yaml": "a: 1\nschema: schema.json\njsonnet: jn.jsonnet\n", "schema.json": '{"a": 5, "b": 6}', "jn.jsonnet": "{c: 1 + 2, d: 4}"},
                 invalid=[("a", "bad"), ("schema.a", "bad")], thorough_only=True),
        Scenario("subfiles-json-main", shape_sub, files=SUB_FILES, target="main.json", invalid=[("e.z", "bad")], thorough_only=True),
    ]
    return out


# ----------------------------------------------------------------------------------------------------------------------
# oracle
def snapshot(root):
    snap = {}
    for d, dirs, files in os.walk(root):
        for f in files:
            p = os.path.join(d, f)
            rel = os.path.relpath(p, root)
            st = os.lstat(p)
            if os.path.islink(p):
                snap[rel] = ("link", os.readlink(p), st.st_ino)
            else:
                with open(p, "rb") as fh:
                    snap[rel] = ("file", fh.read(), st.st_ino)
        for dd in dirs:
            p = os.path.join(d, dd)
            if os.path.islink(p):
                snap[os.path.relpath(p, root)] = ("link", os.readlink(p), os.lstat(p).st_ino)
    return snap


def to_plain(v):
    if isinstance(v, Namespace):
        v = vars(v)
    if isinstance(v, dict):
        return {str(k): to_plain(x) for k, x in v.items() if not str(k).startswith("__")}
    if isinstance(v, (list, tuple)):
        return [to_plain(x) for x in v]
    if isinstance(v, Path):
        return "path:" + str(v.relative)
    if isinstance(v, Enum):
        return "enum:" + v.name
    if isinstance(v, (int, float, str, bool)) or v is None:
        return v
    return repr(type(v))


def subfile_names(v, acc=None):
    """Base names of the sub-files named by the __path__ metadata of a configuration."""
    acc = [] if acc is None else acc
    if isinstance(v, Namespace):
        v = vars(v)
    if isinstance(v, dict):
        if "__path__" in v and isinstance(v["__path__"], Path):
            acc.append(os.path.basename(v["__path__"].absolute))
        for k, x in v.items():
            if k != "__path__":
                subfile_names(x, acc)
    return acc


class Inject:
    """Counts (and optionally fails) the k-th call of validate / dump_using_format / open-for-write inside save."""

    def __init__(self, what=None, k=0):
        self.what, self.k = what, k
        self.counts = {"validate": 0, "dump": 0, "open": 0}

    def hit(self, name):
        self.counts[name] += 1
        return self.what == name and self.counts[name] == self.k

    def __enter__(self):
        inj = self
        self.orig_validate = ArgumentParser.__dict__["validate"]
        self.orig_dump = core.dump_using_format

        def validate(parser, *a, **kw):
            if inj.hit("validate"):
                raise TypeError("injected: configuration is invalid")
            return inj.orig_validate(parser, *a, **kw)

        def dump_using_format(*a, **kw):
            if inj.hit("dump"):
                raise Injected("injected: value cannot be serialised")
            return inj.orig_dump(*a, **kw)

        def open_(file, mode="r", *a, **kw):
            if "w" in mode and inj.hit("open"):
                raise OSError(28, "injected: write failed")
            return builtins.open(file, mode, *a, **kw)

        ArgumentParser.validate = validate
        core.dump_using_format = dump_using_format
        core.open = open_
        return self

    def __exit__(self, *exc):
        ArgumentParser.validate = self.orig_validate
        core.dump_using_format = self.orig_dump
        del core.open
        return False


# ----------------------------------------------------------------------------------------------------------------------
class Runner:
    def __init__(self, h, base):
        self.h, self.base, self.n = h, base, 0
        self.stats = {}

    def count(self, name):
        self.stats[name] = self.stats.get(name, 0) + 1

    def run(self, scen, multi, overwrite, place, pre, fail, pre_content="foreign"):
        """One save call under contract. fail = (class, label, payload). Returns the Inject counters."""
        h = self.h
        self.n += 1
        root = os.path.join(self.base, f"case{self.n}")
        os.makedirs(os.path.join(root, "in"))
        os.makedirs(os.path.join(root, "out"))
        for rel, text in scen.files.items():
            p = os.path.join(root, "in", rel)
            os.makedirs(os.path.dirname(p), exist_ok=True)
            with open(p, "w") as fh:
                fh.write(text)
        cwd0 = os.getcwd()
        os.chdir(root)
        try:
            return self._run(root, scen, multi, overwrite, place, pre, fail, pre_content)
        finally:
            os.chdir(cwd0)
            shutil.rmtree(root, ignore_errors=True)

    def _run(self, root, scen, multi, overwrite, place, pre, fail, pre_content):
        h = self.h
        fclass, flabel, payload = fail
        mode = "multi" if multi else "single"
        parser = scen.shape()
        cfg = scen.load(parser)
        if fclass in ("invalid", "unserialisable"):
            setter(flabel, object() if payload == "OBJECT" else payload)(cfg)
        expected_plain = to_plain(cfg)
        subs = sorted(set(subfile_names(cfg))) if multi else []
        if scen.name == "pathcontent" and multi:
            subs = ["file.txt"]
        tdir = "in" if place == "inplace" else "out"
        target_rel = os.path.join(tdir, scen.target)
        target_arg = target_rel if place == "out" else os.path.join(root, target_rel)
        # pre-existing files
        existing = []
        if place == "out":
            names = {"none": [], "main": [scen.target], "sub1": subs[:1], "all": [scen.target] + subs, "symlink": [scen.target]}[pre]
            for nm in names:
                p = os.path.join(root, "out", nm)
                if pre == "symlink":
                    with open(os.path.join(root, "victim.txt"), "w") as fh:
                        fh.write("VICTIM\n")
                    os.symlink("../victim.txt", p)
                else:
                    with open(p, "w") as fh:
                        fh.write("" if pre_content == "empty" else f"OLD foreign content of {nm} \x07\n")
                existing.append(nm)
        before = snapshot(root)
        roles = {target_rel: "main", "victim.txt": "main-via-symlink"}
        for nm in subs:
            roles.setdefault(os.path.join(tdir, nm), "sub")

        inj = Inject(*(payload if fclass.startswith("inject") else (None, 0)))
        with inj:
            res = outcome(parser.save, cfg, target_arg, multifile=multi, overwrite=overwrite)
        after = snapshot(root)

        effects = []
        old_changed = []
        for rel in sorted(set(before) | set(after)):
            role = roles.get(rel, "input" if rel.startswith("in" + os.sep) else "other")
            if rel not in before:
                effects.append(f"{role}:{'created-empty' if after[rel][1] in (b'', '') else 'created'}")
            elif rel not in after:
                effects.append(f"{role}:deleted")
                old_changed.append(rel)
            elif before[rel] != after[rel]:
                effects.append(f"{role}:{'truncated' if after[rel][1] == b'' else 'changed'}")
                old_changed.append(rel)
        eff = ",".join(sorted(set(effects))) or "nothing"
        raised = res[0] != "ok"
        case = {"scenario": scen.name, "parser": scen.shape.__name__ + "() in b18_save.py", "input_files(in/)": scen.files, "loaded_by": scen.argv if scen.argv is not None else "parse_path('in/main.yaml', with_meta=True)",
                "mutation": None if fclass not in ("invalid", "unserialisable") else f"cfg[{flabel!r}] = {'object()' if payload == 'OBJECT' else repr(payload)}",
                "injection": None if not fclass.startswith("inject") else f"{payload[0]} call #{payload[1]} inside save raises", "call": f"save(cfg, {target_rel!r}, multifile={multi}, overwrite={overwrite})",
                "pre_existing_in_target_dir": existing if place == "out" else "the input files (saving in place)", "result": res[:2] if raised else "returned", "effects": eff}

        base_key = f"{mode}:{scen.name}"
        # C1 ------------------------------------------------------------------------------------------------------
        if not overwrite:
            h.check(not old_changed, f"c18:overwrite-clause:{mode}:{fclass}:{eff}", f"overwrite=False but existing files were modified: {old_changed}", case)
        if pre == "symlink":
            h.check(overwrite or before.get("victim.txt") == after.get("victim.txt"), f"c18:overwrite-clause:{mode}:through-symlink:{eff}", "the file behind a pre-existing symlink target was modified", case)
        # C2 ------------------------------------------------------------------------------------------------------
        refusal_expected = (not overwrite) and (bool(existing) or place == "inplace")
        if raised:
            self.count("raised")
            if fclass in ("invalid", "unserialisable", "inject-validate", "inject-dump"):
                h.check(eff == "nothing", f"c18:all-or-nothing:{mode}:{fclass}:{eff}",
                        f"save failed ({res[1]}) because the configuration is invalid / cannot be serialised, but the directory changed: {eff}", case)
                self.count("failed-" + fclass)
            elif fclass == "valid" and not refusal_expected and "Refusing to overwrite" in res[2]:
                # save refused to overwrite a file that it has just written itself (two sub-files with one base name)
                self.count("not-asserted:refused-to-overwrite-its-own-sub-file(" + eff + ")")
            elif fclass == "valid" and not refusal_expected:
                # a valid configuration that save cannot write: it "cannot be serialised"
                h.check(eff == "nothing", f"c18:all-or-nothing:{mode}:valid-but-unserialisable-{res[1]}:{eff}",
                        f"save of a valid configuration failed with {res[1]}: {res[2][:150]} and left the directory changed: {eff}".replace(root, "<root>"), case)
                self.count("valid-config-save-raised")
            elif refusal_expected and eff != "nothing":
                self.count("not-asserted:files-left-behind-after-refusing-to-overwrite")
            elif fclass == "inject-open" and eff != "nothing":
                self.count("not-asserted:partial-state-after-failing-write")
        else:
            self.count("returned")
            if fclass in ("invalid", "unserialisable"):
                self.count("not-asserted:save-of-" + fclass + "-config-returned")
            # C3 --------------------------------------------------------------------------------------------------
            if fclass == "valid":
                ok = os.path.isfile(os.path.join(root, target_rel))
                h.check(ok, f"c18:roundtrip:{base_key}:no-target-file", "save returned but the target file does not exist", case)
                if scen.roundtrip and ok:
                    back = outcome(scen.shape().parse_path, os.path.join(root, target_rel), with_meta=False)
                    if back[0] != "ok":
                        h.check(False, f"c18:roundtrip:{base_key}:reparse-failed", f"parse_path(saved) failed: {back[1:]}".replace(root, "<root>")[:400], case)
                    else:
                        got = to_plain(back[1])
                        h.check(got == expected_plain, f"c18:roundtrip:{base_key}:differs", f"parse_path(saved) = {got} but the saved configuration was {expected_plain}", case)
                if scen.name == "pathcontent" and multi and place == "inplace":
                    now = after.get(os.path.join("in", "pathdir", "file.txt"))
                    if now is not None and now[1] == b"":
                        self.count("not-asserted:in-place-save-with-save_path_content-emptied-the-referenced-file")
        h.nontrivial((scen.name, mode, overwrite, place, pre, pre_content, fclass, flabel, str(payload)))
        if fclass != "valid" and raised and eff != "nothing":
            h.sample(case)
        return inj.counts


def main():
    h = Harness("b18_save", rule="one save() call per (scenario, single/multi-file, overwrite, pre-existing files / in place, failure); each call evaluates C1 (if overwrite=False), "
                "C2 (if it failed for an invalid/unserialisable configuration) and C3 (if it returned on a valid one); non-trivial = distinct tuple of those dimensions")
    with tempfile.TemporaryDirectory() as base:
        cwd0 = os.getcwd()
        r = Runner(h, base)
        hits = {"validate": 0, "dump": 0, "open": 0}
        for scen in scenarios():
            if scen.thorough_only and not h.thorough:
                continue
            for multi in (False, True):
                for overwrite in (False, True):
                    places = [("out", "none"), ("out", "main"), ("out", "all"), ("inplace", "inputs")]
                    if multi:
                        places.insert(2, ("out", "sub1"))
                    if h.thorough:
                        places.append(("out", "symlink"))
                    for place, pre in places:
                        if place == "inplace" and not scen.files:
                            continue
                        counts = r.run(scen, multi, overwrite, place, pre, ("valid", "", None))
                        if pre == "main" or (h.thorough and pre == "all"):
                            r.run(scen, multi, overwrite, place, pre, ("valid", "", None), pre_content="empty")
                        full = pre in ("none", "all", "inputs") or h.thorough
                        for key, val in scen.invalid:
                            if full or key == scen.invalid[0][0]:
                                r.run(scen, multi, overwrite, place, pre, ("invalid", key, val))
                        for key, val in scen.unser:
                            if full or key == scen.unser[0][0]:
                                r.run(scen, multi, overwrite, place, pre, ("unserialisable", key, val))
                        if not full:
                            continue
                        for what in ("validate", "dump", "open"):
                            for k in range(1, min(counts[what], 8) + 1):
                                c2 = r.run(scen, multi, overwrite, place, pre, ("inject-" + what, f"{what}#{k}", (what, k)))
                                hits[what] += c2[what] >= k
        os.chdir(cwd0)
        for what, n in hits.items():
            h.check(n > 0, f"b18_save:vacuous:inject-{what}", f"no injected {what} failure was ever reached", None)
        for need in ("raised", "returned", "failed-invalid", "failed-unserialisable"):
            h.check(r.stats.get(need, 0) > 0, f"b18_save:vacuous:{need}", f"no case with outcome {need}", None)
        h.note("counters: " + ", ".join(f"{k}={v}" for k, v in sorted(r.stats.items())) + f", injected failures reached: {hits}")
        h.note("not asserted (statement is silent): files created before save refuses to overwrite a later sub-file; partial state after a failing write (injected OSError in open); "
               "in-place multi-file save with save_path_content and overwrite=True empties the referenced file")
    sys.exit(h.finish(exhaustive=True, bound=f"{'13' if h.thorough else '11'} configuration scenarios over {'7' if h.thorough else '6'} parser shapes x single/multi-file x overwrite on/off x "
                      f"{'6' if h.thorough else '5'} pre-existing-file layouts x (valid | each listed key invalid | each untyped position unserialisable | failure injected at every call <= 8 of validate, dump_using_format, open)"))


if __name__ == "__main__":
    main()
