"""Bounded stand-in layer (DESIGN.md section 3): the contracts evaluated at run time on the real functions from /repo,
over an enumerated input space with a stated bound.  Results are reported under `coverage.bounded` and are never
counted as proved.  Runs under /venv/bin/python with PYTHONPATH=/verif:$VERIF_REPO (default /repo).
"""
from __future__ import annotations

import argparse
import contextlib
import functools
import io
import json
import os
import random
import sys
import time
import traceback


class Harness:
    def __init__(self, name: str, rule: str, argv=None):
        ap = argparse.ArgumentParser()
        ap.add_argument("--tier", default=os.environ.get("VERIF_TIER", "quick"))
        ap.add_argument("--seed", type=int, default=int(os.environ.get("VERIF_SEED", "0") or 0))
        ap.add_argument("--out", default="")
        ap.add_argument("--only", default="", help="run only the case with this key (replay)")
        a, self.extra = ap.parse_known_args(argv)
        self.name, self.rule = name, rule
        self.tier, self.seed, self.out, self.only = a.tier, a.seed, a.out, a.only
        self.thorough = self.tier == "thorough"
        self.rng = random.Random(self.seed)
        self.evaluations = 0
        self.distinct = set()
        self.samples = []
        self.violations = []
        self.viol_keys = set()
        self.contract_evals = {}
        self.t0 = time.time()
        self.notes = []
        import jsonargparse

        self.repo_file = jsonargparse.__file__

    # ------------------------------------------------------------------
    def check(self, ok: bool, key: str, what: str = "", case=None):
        """One contract evaluation. `key` canonically identifies the failing case (used for known findings)."""
        self.evaluations += 1
        if not ok:
            self.violation(key, what, case)
        return ok

    def violation(self, key: str, what: str = "", case=None):
        if key in self.viol_keys:
            return
        self.viol_keys.add(key)
        if len(self.violations) < 200:
            self.violations.append({"key": key, "what": what, "case": _jsonable(case)})

    def nontrivial(self, sig):
        """Record a distinct non-trivial case signature."""
        self.distinct.add(sig if isinstance(sig, (str, int, tuple)) else repr(sig))

    def sample(self, obj, limit=5):
        if len(self.samples) < limit:
            self.samples.append(_jsonable(obj))

    def note(self, txt):
        self.notes.append(txt)

    def finish(self, exhaustive=False, bound=""):
        for name, n in self.contract_evals.items():
            if n == 0:
                self.violation(f"{self.name}:contract-never-evaluated:{name}", "a run-time contract wrapper was installed but never evaluated (bypassed)")
        data = {
            "harness": self.name, "tier": self.tier, "seed": self.seed, "label": "bounded (run-time contract checking; not a proof)",
            "evaluations": self.evaluations, "distinct_nontrivial": len(self.distinct), "rule": self.rule, "bound": bound,
            "exhaustive": bool(exhaustive), "samples": self.samples, "violations": self.violations,
            "contract_evaluations": self.contract_evals, "notes": self.notes, "repo_module": self.repo_file,
            "wall_s": round(time.time() - self.t0, 2),
        }
        if self.out:
            with open(self.out, "w") as f:
                json.dump(data, f, indent=1, default=str)
        else:
            json.dump({k: v for k, v in data.items() if k != "samples"}, sys.stdout, indent=1, default=str)
            print()
        return 1 if self.violations else 0

    # ------------------------------------------------------------------ run-time contracts on real functions
    def install(self, owner, attr: str, name: str, pre=None, old=None, post=None):
        """Wrap owner.attr in place with a run-time contract.

        pre(*args, **kw) -> bool             (False: call outside the contract's precondition; not counted)
        old(*args, **kw) -> snapshot
        post(snapshot, result, exc, *args, **kw) -> (ok, what, key_suffix)
        """
        orig = owner.__dict__[attr] if isinstance(owner, type) else getattr(owner, attr)
        raw = orig.__func__ if isinstance(orig, (staticmethod, classmethod)) else orig
        self.contract_evals.setdefault(name, 0)
        harness = self

        @functools.wraps(raw)
        def wrapper(*args, **kw):
            if pre is not None and not pre(*args, **kw):
                return raw(*args, **kw)
            snap = old(*args, **kw) if old is not None else None
            try:
                result = raw(*args, **kw)
            except BaseException as ex:  # noqa
                harness.contract_evals[name] += 1
                ok, what, suffix = post(snap, None, ex, *args, **kw)
                harness.check(ok, f"{name}:{suffix}", what, {"args": args, "kwargs": kw, "raised": repr(ex)})
                raise
            harness.contract_evals[name] += 1
            ok, what, suffix = post(snap, result, None, *args, **kw)
            harness.check(ok, f"{name}:{suffix}", what, {"args": args, "kwargs": kw, "result": result})
            return result

        new = staticmethod(wrapper) if isinstance(orig, staticmethod) else classmethod(wrapper) if isinstance(orig, classmethod) else wrapper
        setattr(owner, attr, new)
        return lambda: setattr(owner, attr, orig)


def _jsonable(x, depth=0):
    if depth > 6:
        return repr(x)[:200]
    if x is None or isinstance(x, (bool, int, float, str)):
        return x
    if isinstance(x, (list, tuple, set, frozenset)):
        return [_jsonable(y, depth + 1) for y in list(x)[:50]]
    if isinstance(x, dict):
        return {str(k): _jsonable(v, depth + 1) for k, v in list(x.items())[:50]}
    return repr(x)[:300]


@contextlib.contextmanager
def quiet():
    """Swallow stdout/stderr of the code under test (argparse usage messages etc.)."""
    out, err = io.StringIO(), io.StringIO()
    with contextlib.redirect_stdout(out), contextlib.redirect_stderr(err):
        yield out, err


def outcome(fn, *args, **kw):
    """Run fn and return ('ok', value) | ('exc', ExceptionClassName, message) | ('exit', code)."""
    try:
        with quiet():
            return ("ok", fn(*args, **kw))
    except SystemExit as ex:
        return ("exit", ex.code)
    except BaseException as ex:  # noqa
        return ("exc", type(ex).__name__, str(ex)[:300])
