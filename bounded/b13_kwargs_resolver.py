"""C13 bounded stand-in: parameters resolved through **kwargs are exactly those the code accepts.

Programs are generated *as real source files* (a temporary package directory on sys.path) from the forwarding patterns
documented in DOCUMENTATION.rst "AST resolver": super().__init__ / super(X, self).__init__, call of a function, class,
class method, static method, method of self, locally imported callable, method of a local / module-level instance,
kwargs.pop / kwargs.get, kwargs stored in an attribute (plain, dict(**kwargs), dict(h=1, **kwargs), dict(h=1) + update)
and used in a method or property, constant and run-time conditionals, two unconditional calls of one callee, hard-coded
positional / keyword arguments, *args, shadowing of a callee's parameter, classes without __init__ or without **kwargs in
the middle of a hierarchy, multiple inheritance (diamond, non-cooperative / mixin / skipped bases).

Oracle (independent of jsonargparse, it is the Python interpreter): every generated callable starts with
`_rec(<where>, a=a, b=b, ...)`, every pop/get is followed by `_rec(<where>#pop, name=value)`.  For a candidate name c (every
identifier that occurs as a parameter / popped key anywhere in the program, plus a foreign name) the component is really
called with c=<sentinel> next to the (dynamically discovered) required parameters, the object is driven (consumer method /
property), and c is *passable* iff no TypeError is raised and the sentinel arrives in a named parameter / pop called c.
Run-time conditionals are tried with every value of their flag; a name is expected iff it is passable for some flag value.

Contract clauses, each one h.check:
  set      for every candidate name: offered by ArgumentParser.add_{class,function,method}_arguments <=> passable
           (violations: `missing` = passable but not offered; `offered-not-passable` = offered but raises TypeError
           (unexpected keyword / multiple values) or reaches nothing)
  call     calling the component with every offered parameter (per flag value: those passable under it) raises no TypeError;
           the same through auto_cli (functions and classes) with values given on the command line
  origin   each offered parameter that is not marked Conditional by the resolver has the annotation and default of the
           signature (or pop/get) in which the sentinel landed first

Canonical violation key: c13:<clause>:<diagnosis>:<program shape>:<role of the name in the program>.
"""
import importlib
import inspect
import itertools
import os
import re
import sys
import tempfile
import zlib
from typing import Dict, List, Optional, Union  # noqa: F401  (used by the generated modules' annotations when evaluated here)

from bounded.common import Harness, outcome

from jsonargparse import ArgumentParser, auto_cli
from jsonargparse._parameter_resolvers import ConditionalDefault, get_signature_parameters

HEADER = '''from typing import Dict, List, Optional, Union

LOG = []


def _rec(where, **named):
    LOG.append((where, named))

'''

NAME_POOL = ["lr", "n_layers", "x", "alpha_1", "Beta", "k9", "momentum", "w", "name2", "zz", "depth", "q_", "seed0", "Tmax", "eps", "v1"]
# annotation source, default source, command line text, value the callee must see for that text
TYPE_POOL = [
    ("int", "3", "7", 7),
    ("str", "'s'", "zzz", "zzz"),
    ("float", "0.5", "2.5", 2.5),
    ("bool", "True", "false", False),
    ("Optional[int]", "None", "4", 4),
    ("List[int]", "[1]", "[2, 3]", [2, 3]),
    ("Union[int, str]", "'u'", "9", 9),
    ("Optional[str]", "'o'", "null", None),
]


class Sent:
    """Unique sentinel value."""

    def __init__(self, name):
        self.name = name

    def __repr__(self):
        return f"<sent {self.name}>"


class Param:
    def __init__(self, name, tix, required, kwonly, tag):
        self.name, self.required, self.kwonly, self.tag = name, required, kwonly, tag
        self.ann, self.dflt, self.text, self.want = TYPE_POOL[tix % len(TYPE_POOL)]

    def src(self):
        return f"{self.name}: {self.ann}" + ("" if self.required else f" = {self.dflt}")


# own-parameter layouts: list of (required, kwonly)
LAYOUTS = {
    "0": [],
    "r": [(True, False)],
    "d": [(False, False)],
    "rd": [(True, False), (False, False)],
    "dk": [(False, False), (True, True)],
    "k": [(False, True)],
    "dd": [(False, False), (False, False)],
}


class Unit:
    """What the generator knows about an emitted callable (used to pick hard-coded / shadowed names, *not* as oracle)."""

    def __init__(self, name, kind, own, reach, call_src=None, cls=None):
        self.name, self.kind, self.own, self.reach = name, kind, own, reach  # reach: params believed reachable by keyword
        self.call_src = call_src or name
        self.cls = cls or name


class Prog:
    def __init__(self, idx, shape):
        self.idx, self.shape = idx, shape
        self.mod = f"c13gen_{idx}"
        self.aux = f"c13aux_{idx}"
        self.lines, self.aux_lines = [], []
        self.n = idx * 5  # rotates names and types
        self.tags = {}  # name -> role tag (first role wins)
        self.pops = {}  # where -> {name: default value}
        self.flag = None  # name of the run-time flag parameter of the top unit
        self.consts = {}
        self.universe = ["zz_foreign"]
        self.drive = None  # 'consume' | 'consumed'
        self.top = None  # (unit, method or None)
        self.ucount = 0

    # ---- names
    def fresh_params(self, layout, level, names=None):
        out = []
        for i, (req, kwo) in enumerate(LAYOUTS[layout]):
            self.n += 1
            name = names[i] if names and i < len(names) and names[i] else NAME_POOL[self.n % len(NAME_POOL)] + (str(self.n // len(NAME_POOL)) if self.n >= len(NAME_POOL) else "")
            if name in (p for p in self.universe) and not (names and i < len(names) and names[i]):
                name += f"_{level}{i}"
            p = Param(name, self.n + (3 if names and i < len(names) and names[i] else 0), req, kwo, f"L{level}.own{i}")
            out.append(p)
            self.note_name(name, p.tag)
        return out

    def note_name(self, name, tag):
        if name not in self.universe:
            self.universe.append(name)
        self.tags.setdefault(name, tag)

    def uname(self, prefix):
        self.ucount += 1
        return f"{prefix}{self.ucount}"


def signature(own, first=None, star_args=False, kw=None):
    parts = [first] if first else []
    parts += [p.src() for p in own if not p.kwonly]
    kwo = [p.src() for p in own if p.kwonly]
    if star_args:
        parts.append("*args")
    elif kwo:
        parts.append("*")
    parts += kwo
    if kw:
        parts.append("**" + kw)
    return ", ".join(parts)


def rec_line(where, own):
    return f'_rec("{where}"' + "".join(f", {p.name}={p.name}" for p in own) + ")"


class Fwd:
    """One forwarding call: callee source text, hard-coded arguments, optional prelude lines."""

    def __init__(self, callee, hard_pos=(), hard_kw=(), prelude=(), star_args=False):
        self.callee, self.hard_pos, self.hard_kw, self.prelude, self.star_args = callee, list(hard_pos), list(hard_kw), list(prelude), star_args

    def expr(self, kw, spread=None):
        hard = [f"{k}={v}" for k, v in self.hard_kw]
        spread_arg = ["**" + (spread or kw)]
        # `f(a=1, **kw)` and `f(**kw, a=1)` are the same call
        args = list(self.hard_pos) + (["*args"] if self.star_args else []) + (spread_arg + hard if getattr(self, "kw_late", False) else hard + spread_arg)
        return f"{self.callee}({', '.join(args)})"


def body_lines(prog, where, own, kw, pops, use, is_init):
    """Statements of a generated callable. use: None | ('unused',) | ('fwd', Fwd) | ('cond', [(cond_src|None, Fwd)]) |
    ('attr', variant, Fwd-for-consumer) (the consumer is emitted by the caller)."""
    out = [rec_line(where, own)]
    before = [p for p in pops if p[3] == "before"]
    after = [p for p in pops if p[3] == "after"]

    def pop_lines(plist):
        res = []
        for op, name, dsrc, _when, dval in plist:
            res.append(f'v_{name} = {kw}.{op}("{name}", {dsrc})')
            res.append(f'_rec("{where}#pop", {name}=v_{name})')
            prog.pops.setdefault(where + "#pop", {})[name] = dval
        return res

    out += pop_lines(before)
    ret = None
    if use is None or use[0] == "unused":
        pass
    elif use[0] == "fwd":
        f = use[1]
        out += f.prelude
        if is_init or after:
            out.append(("" if is_init else "_r = ") + f.expr(kw))
            ret = None if is_init else "_r"
        else:
            out.append("return " + f.expr(kw))
    elif use[0] == "cond":
        for i, (cond, f) in enumerate(use[1]):
            out.append(("if " if i == 0 else "elif ") + cond + ":" if cond else "else:")
            for ln in f.prelude:
                out.append("    " + ln)
            out.append("    " + ("" if is_init else "return ") + f.expr(kw))
    elif use[0] == "attr":
        variant, hard = use[1], use[3]
        if variant == "plain":
            out.append(f"self._kw = {kw}")
        elif variant == "dictcopy":
            out.append(f"self._kw = dict(**{kw})")
        elif variant == "dicthard":
            out.append(f"self._kw = dict({hard[0]}={hard[1]}, **{kw})")
        elif variant == "dictlit":
            out.append(f"self._kw = {{'{hard[0]}': {hard[1]}}}")
            out.append(f"self._kw.update(**{kw})")
        else:  # dictupd
            out.append(f"self._kw = dict({hard[0]}={hard[1]})")
            out.append(f"self._kw.update(**{kw})")
    out += pop_lines(after)
    if ret:
        out.append("return " + ret)
    return out


def emit_fn(prog, name, own, kw, pops, use, star_args=False, target=None, decorator=None, indent="", first=None, where=None):
    where = where or name
    for p in own:
        p.where = where
    lines = []
    if decorator:
        lines.append(f"{indent}@{decorator}")
    lines.append(f"{indent}def {name}({signature(own, first=first, star_args=star_args, kw=kw)}):")
    for ln in body_lines(prog, where, own, kw, pops, use, is_init=(name == "__init__")):
        lines.append(f"{indent}    {ln}")
    return lines


# ---------------------------------------------------------------------------------------------------------------------
# oracle


class HarnessBug(Exception):
    pass


def run_component(mod, comp, method, kwargs, drive):
    del mod.LOG[:]
    if method:
        if isinstance(inspect.getattr_static(comp, method), (classmethod, staticmethod)):
            res = getattr(comp, method)(**kwargs)
        else:
            obj = comp.__new__(comp)  # plain method component: call on an uninitialised instance (the method needs no state)
            res = getattr(obj, method)(**kwargs)
        drive = None
    else:
        res = comp(**kwargs)
    return drive_result(mod, res, drive)


def drive_result(mod, res, drive):
    if drive and res is not None and hasattr(type(res), drive):
        member = inspect.getattr_static(type(res), drive)
        if isinstance(member, property):
            getattr(res, drive)
        else:
            getattr(res, drive)()
    return list(mod.LOG)


def landed(log, name, value):
    for where, named in log:
        if name in named and named[name] is value:
            return where
    return None


def oracle(prog, mod, comp, method):
    """-> (expected {name: first landing place}, per-variant legal sets, per-variant base kwargs, diagnosis for the rest)."""
    variants = [{}]
    if prog.flag:
        variants = [{prog.flag: True}, {prog.flag: False}]
    expected, legal, bases, why_not = {}, [], [], {}
    for var in variants:
        base = dict(var)
        for _ in range(40):
            try:
                log0 = run_component(mod, comp, method, base, prog.drive)
                break
            except TypeError as ex:
                m = re.search(r"missing \d+ required (?:positional|keyword-only) arguments?: (.*)$", str(ex))
                if not m:
                    raise HarnessBug(f"{prog.shape}: base call failed: {ex}")
                for nm in re.findall(r"'(\w+)'", m.group(1)):
                    if nm in base:
                        raise HarnessBug(f"{prog.shape}: required {nm} cannot be supplied: {ex}")
                    base[nm] = Sent(nm)
        else:
            raise HarnessBug(f"{prog.shape}: no base call found")
        ok_here = set()
        for nm, val in base.items():
            w = landed(log0, nm, val)
            if w is None:
                raise HarnessBug(f"{prog.shape}: required {nm} landed nowhere")
            expected.setdefault(nm, w)
            ok_here.add(nm)
        for c in prog.universe:
            if c in base:
                continue
            s = Sent(c)
            try:
                log = run_component(mod, comp, method, dict(base, **{c: s}), prog.drive)
            except TypeError as ex:
                msg = str(ex)
                why_not.setdefault(c, "unexpected-keyword" if "unexpected keyword" in msg else "multiple-values" if "multiple values" in msg else
                                   "object-init" if "takes exactly one argument" in msg or "takes no arguments" in msg else "TypeError")
                continue
            w = landed(log, c, s)
            if w is None:
                why_not.setdefault(c, "reaches-nothing")
                continue
            expected.setdefault(c, w)
            ok_here.add(c)
        legal.append(ok_here)
        bases.append(base)
    for c in expected:
        why_not.pop(c, None)
    return expected, legal, bases, why_not, variants


def resolve_where(prog, mod, where):
    """The signature parameter mapping (or pop defaults) of a landing place."""
    if where in prog.pops:
        return "pop", prog.pops[where]
    obj = mod
    if not hasattr(mod, where.split(".")[0]):
        obj = sys.modules[prog.aux]
    for part in where.split("."):
        obj = inspect.getattr_static(obj, part) if inspect.isclass(obj) else getattr(obj, part)
    if isinstance(obj, (classmethod, staticmethod)):
        obj = obj.__func__
    return "sig", inspect.signature(obj).parameters


def short(key):
    return key if len(key) < 145 else key[:125] + "~" + format(zlib.crc32(key.encode()), "08x")


def families(shape):
    """(coarse family, fine family) of a program shape.  Keys use the coarse family when the role of the name already names
    the construct responsible (get, hardkw, dict-hardcoded, ...), and the fine one (with the set of link variants) otherwise,
    so that one defect gives few keys and an unexplained one is still keyed by the constructs present."""
    t = shape.split(":")
    if t[0] == "rnd":
        t = t[1:]
    head = t[0]
    if head in ("cls", "fn"):
        if t[1] == "d1":
            return head, f"{head}[{'+'.join(['d1'] + t[3:])}]"
        links = t[2] if re.match(r"d\d+$", t[1]) else t[1]
        vs = sorted(set(links.split("/")) - {"plain"})
        return head, f"{head}[{'+'.join(vs) or 'plain'}]"
    if head.startswith("fn>"):
        return head, f"{head}[{t[1]}]"
    if head == "mi":
        return f"mi:{t[1]}", f"mi:{t[1]}"
    if head in ("attr", "cond", "method", "popget", "seq"):
        return f"{head}:{t[1]}", shape
    return head, shape


def role_of(tag):
    tag = re.sub(r"L\d+\.", "", tag)
    return re.sub(r"own\d+", "own", tag)


def fam_for(shape, role):
    coarse, fine = families(shape)
    return fine if role in ("own", "foreign", "?") else coarse


def clean(text):
    return re.sub(r" at 0x[0-9a-f]+", "", str(text))


# ---------------------------------------------------------------------------------------------------------------------
# checking one program


def check_program(h, prog, tmp, stats, keep_module=False):
    path = os.path.join(tmp, prog.mod + ".py")
    with open(path, "w") as f:
        f.write(HEADER + "\n".join(f"{k} = {v!r}" for k, v in prog.consts.items()) + "\n\n" + "\n".join(prog.lines) + "\n")
    if prog.aux_lines:
        with open(os.path.join(tmp, prog.aux + ".py"), "w") as f:
            f.write("from typing import Dict, List, Optional, Union\n\n" + "\n".join(prog.aux_lines) + "\n")
    importlib.invalidate_caches()
    mod = importlib.import_module(prog.mod)
    if prog.aux_lines:
        aux = importlib.import_module(prog.aux)
        aux._rec = mod._rec
    unit, method = prog.top
    comp = getattr(mod, unit.cls)
    case = {"shape": prog.shape, "component": unit.cls + (f".{method}" if method else ""), "module_source": "\n".join(prog.lines),
            "aux_module_source": "\n".join(prog.aux_lines), "constants": prog.consts}
    expected, legal, bases, why_not, variants = oracle(prog, mod, comp, method)

    # ---- what jsonargparse offers
    def build():
        parser = ArgumentParser(exit_on_error=False)
        if method:
            added = parser.add_method_arguments(comp, method, "c")
        elif inspect.isclass(comp):
            added = parser.add_class_arguments(comp, "c")
        else:
            added = parser.add_function_arguments(comp, "c")
        return parser, [a.split(".", 1)[1] for a in added]

    res = outcome(build)
    shape = prog.shape
    if res[0] != "ok":
        h.check(False, short(f"c13:build:{res[1]}:{families(shape)[1]}"), clean(f"adding the component's arguments failed: {res}"), case)
        h.nontrivial(shape)
        return
    offered = res[1][1]
    params = {p.name: p for p in get_signature_parameters(comp, method)}
    case["offered"] = offered
    case["expected"] = {k: v for k, v in expected.items()}
    case["not_passable"] = why_not
    stats["programs"] += 1
    top_where = f"{unit.cls}.{method}" if method else f"{unit.cls}.__init__" if inspect.isclass(comp) else unit.name
    stats["forwarded"] += sum(1 for n, w in expected.items() if w.split("#")[0] != top_where)

    # ---- clause `set`
    for c in prog.universe + [n for n in offered if n not in prog.universe]:
        tag = role_of(prog.tags.get(c, "foreign"))
        if c in expected:
            h.check(c in offered, short(f"c13:set:missing:{families(shape)[1]}:{tag}"), f"parameter {c} can be passed (lands in {expected[c]}) but is not offered", dict(case, name=c))
        else:
            h.check(c not in offered, short(f"c13:set:offered-not-passable:{why_not.get(c, '?')}:{fam_for(shape, tag)}:{tag}"),
                    f"parameter {c} is offered but passing it is not legal / reaches nothing: {why_not.get(c)}", dict(case, name=c))
    h.nontrivial(shape)

    # ---- clause `call`: every offered parameter at once (per flag value: the ones passable under it)
    by_name = {}
    for p in prog.all_params:
        by_name.setdefault(p.name, p)
    for p in prog.all_params:  # the declaration in which the name lands wins (shadowing)
        if expected.get(p.name) == getattr(p, "where", None):
            by_name[p.name] = p
    public = [k for k, v in inspect.getmembers(comp) if not k.startswith("_") and (callable(v) or isinstance(v, property))] if inspect.isclass(comp) else []
    for var, ok_here, base in zip(variants, legal, bases):
        names = [n for n in offered if n in ok_here or (n not in expected and not prog.flag)]
        kwargs = {n: (var[n] if n in var else Sent(n)) for n in names}
        for n in base:
            kwargs.setdefault(n, base[n])
        r = outcome(run_component, mod, comp, method, kwargs, prog.drive)
        vtag = "" if not var else f":{prog.flag}={list(var.values())[0]}"
        diag, fam = diagnose(prog, r)
        h.check(r[0] == "ok", short(f"c13:call:{diag}:{fam}{vtag}"), f"calling the component with every offered parameter raised {r[1:]}", dict(case, passed=sorted(names)))
        # the same through the command line
        if not method and public in ([], [prog.drive]) and all(n in offered or n in var for n in base):
            argv = []
            for n in names:
                p = by_name.get(n)
                if n in var:
                    argv.append(f"--{n}={'true' if var[n] else 'false'}")
                elif p is not None:
                    argv.append(f"--{n}={p.text}")
                else:
                    argv.append(f"--{n}=7")
            for n in base:
                if n not in names and n not in var:
                    argv.append(f"--{n}={by_name[n].text}")
            if public:
                argv.append(prog.drive)
            del mod.LOG[:]
            r = outcome(auto_cli, comp, args=argv, as_positional=False)
            if r[0] == "ok" and prog.drive and not public:
                r = outcome(drive_result, mod, r[1], prog.drive)
            log = list(mod.LOG)
            diag, fam = diagnose(prog, r)
            ok = r[0] == "ok"
            what = clean(f"auto_cli with every offered parameter on the command line: {r}")
            if ok:
                # every typed value arrives converted to the type of the signature it comes from
                for n in names:
                    p = by_name.get(n)
                    if p is None or n in var or expected.get(n, "").endswith("#pop") or (n in params and isinstance(params[n].default, ConditionalDefault)):
                        continue  # Conditional parameters are typed by the union of their branches
                    here = next((where for where, named in log if n in named), None)
                    p = next((q for q in prog.all_params if q.name == n and getattr(q, "where", None) == here), p)
                    got = [named[n] for where, named in log if n in named and not where.endswith("#pop")]  # first landing in this run
                    if not got or got[0] != p.want or type(got[0]) is not type(p.want):
                        role = role_of(prog.tags.get(n, "?"))
                        ok, diag, fam = False, "value", f"{fam_for(shape, role)}:{role}"
                        what = f"parameter {n} given as {p.text!r} arrived as {got[:1]!r} in {expected.get(n)}"
                        break
            h.check(ok, short(f"c13:cli:{diag}:{fam}{vtag}"), what, dict(case, argv=argv))

    # ---- clause `required`: without run-time conditionals, a parameter the component cannot be called without (TypeError
    # "missing ... required") keeps the (absent) default of the signature it comes from: it is offered as required
    if not prog.flag:
        for n in bases[0]:
            if n in offered and n in params:
                tag = role_of(prog.tags.get(n, "?"))
                h.check(params[n].default is inspect.Parameter.empty, short(f"c13:required:offered-with-a-default:{families(shape)[1]}:{tag}"),
                        f"parameter {n} is required by the code (lands in {expected.get(n)}, calling without it raises TypeError) but is offered with default {params[n].default!r}", dict(case, name=n))

    # ---- clause `origin`
    for n in offered:
        if n not in expected or n not in params:
            continue
        p = params[n]
        if isinstance(p.default, ConditionalDefault):
            stats["conditional"] += 1
            continue
        kind, sig = resolve_where(prog, mod, expected[n])
        tag = role_of(prog.tags.get(n, "?"))
        if kind == "pop":
            want_default = sig[n]
            ok = p.annotation is inspect.Parameter.empty and (p.default == want_default or (want_default is UNSUPPORTED and type(p.default).__name__ == "UnknownDefault"))
            h.check(ok, short(f"c13:origin:pop-default:{families(shape)[1]}:{tag}"), f"popped key {n}: default {p.default!r} / annotation {p.annotation!r}, code has default {want_default!r}", dict(case, name=n))
        else:
            sp = sig[n]
            ok = p.annotation == sp.annotation and (p.default == sp.default if sp.default is not inspect.Parameter.empty else p.default is inspect.Parameter.empty)
            h.check(ok, short(f"c13:origin:type-or-default:{families(shape)[1]}:{tag}"),
                    f"parameter {n}: offered ({p.annotation!r}, {p.default!r}) but it lands in {expected[n]} declared ({sp.annotation!r}, {sp.default!r})", dict(case, name=n))
    if len(h.samples) < 5 and stats["programs"] % 97 == 5:
        h.sample({"shape": shape, "source": "\n".join(prog.lines), "offered": offered, "expected": expected})
    if not keep_module:
        sys.modules.pop(prog.mod, None)
        sys.modules.pop(prog.aux, None)


UNSUPPORTED = object()


def diagnose(prog, r):
    """(diagnosis, family[:role of the culprit]) of a failed call."""
    if r[0] == "ok":
        return "", families(prog.shape)[1]
    if r[0] == "exit":
        return "rejected", families(prog.shape)[1]
    diag = "unexpected-keyword" if "unexpected keyword" in r[2] else "multiple-values" if "multiple values" in r[2] else r[1]
    m = re.search(r"(?:keyword argument|for argument) '(\w+)'", r[2])
    if m and m.group(1) in prog.tags:
        role = role_of(prog.tags[m.group(1)])
        return diag, f"{fam_for(prog.shape, role)}:{role}"
    return diag, families(prog.shape)[1]

# ---------------------------------------------------------------------------------------------------------------------
# program families


def new_prog(counter, shape):
    counter[0] += 1
    p = Prog(counter[0], shape)
    p.all_params = []
    return p


def own(prog, layout, level, names=None):
    ps = prog.fresh_params(layout, level, names)
    prog.all_params += ps
    return ps


def pick_hard_kw(target, which=0):
    """A keyword of the target to hard-code: prefer one with a default, from the believed reachable ones."""
    cands = [p for p in target.reach if not p.required] or list(target.reach)
    return cands[which % len(cands)] if cands else None


LINKS = ["plain", "hardkw", "hardkwlate", "hardpos", "shadow", "popb", "getb", "star", "hardreq"]
CLASS_LINKS = LINKS + ["super2", "noinit", "nokw", "unused", "popdeep", "explicit"]  # explicit: Base.__init__(self, **kwargs) instead of super().__init__(**kwargs)


def emit_leaf_fn(prog, layout, level, module_lines=None, name=None):
    name = name or prog.uname("fn")
    ps = own(prog, layout, level)
    lines = emit_fn(prog, name, ps, None, [], None)
    (module_lines if module_lines is not None else prog.lines).extend(lines + ["", ""])
    return Unit(name, "fn", ps, list(ps))


def make_pops(prog, link, level, target):
    """pop/get statements for a link variant."""
    if link == "popb":
        nm = f"popped{level}"
        prog.note_name(nm, f"L{level}.pop")
        return [("pop", nm, "5", "before", 5)]
    if link == "getb":
        nm = f"got{level}"
        prog.note_name(nm, f"L{level}.get")
        return [("get", nm, "'g'", "before", "g")]
    if link == "popdeep" and target is not None and [p for p in target.reach if not p.required]:
        p = [p for p in target.reach if not p.required][-1]  # pop a key that the callee also declares: the callee never sees it
        prog.tags[p.name] = prog.tags[p.name] + f"+L{level}.pop-same"
        return [("pop", p.name, "None", "before", None)]
    return []


def link_args(prog, link, target, level):
    """-> (hard_pos, hard_kw, star_args, shadow names) for a forwarding call to `target`."""
    hard_pos, hard_kw, star, shadow = [], [], False, None
    if link in ("hardkw", "hardkwlate"):
        p = pick_hard_kw(target, level)
        if p is not None:
            hard_kw = [(p.name, p.dflt if not p.required else repr(p.want))]
            prog.tags[p.name] = prog.tags[p.name] + f"+L{level}.{link}"
    elif link == "hardreq":
        req = [p for p in target.reach if p.required]
        if req:
            p = req[0]
            hard_kw = [(p.name, repr(p.want))]
            prog.tags[p.name] = prog.tags[p.name] + f"+L{level}.hardkw-required"
    elif link == "hardpos":
        if target.own and not target.own[0].kwonly:
            p = target.own[0]
            hard_pos = [repr(p.want)]
            prog.tags[p.name] = prog.tags[p.name] + f"+L{level}.hardpos"
    elif link == "shadow":
        cands = [p for p in target.reach if not p.required]  # shadowing a required one would make the program uncallable
        if cands:
            shadow = [cands[-1].name]
            prog.tags[shadow[0]] = prog.tags[shadow[0]] + f"+L{level}.shadowed"
    elif link == "star":
        star = True
    return hard_pos, hard_kw, star, shadow


def shadowed_layout(layout):
    return layout if LAYOUTS[layout] and not LAYOUTS[layout][0][0] else "d"


def emit_fn_over(prog, target, link, layout, level, callee=None, prelude=()):
    """A function that forwards **kwargs to `target` with the link variant."""
    hard_pos, hard_kw, star, shadow = link_args(prog, link, target, level)
    if shadow:
        layout = shadowed_layout(layout)
    ps = own(prog, layout, level, names=shadow)
    pops = make_pops(prog, link, level, target)
    name = prog.uname("fn")
    kw = ["kwargs", "kw", "kwds"][level % 3]
    f = Fwd(callee or target.call_src, hard_pos, hard_kw, prelude, star)
    f.kw_late = link == "hardkwlate"
    prog.lines += emit_fn(prog, name, ps, kw, pops, ("fwd", f), star_args=star) + ["", ""]
    gone = {k for k, _ in hard_kw} | ({target.own[0].name} if hard_pos else set()) | {p.name for p in ps}
    return Unit(name, "fn", ps, ps + [p for p in target.reach if p.name not in gone])


def emit_class(prog, name, bases, init_lines, extra=()):
    prog.lines.append(f"class {name}({', '.join(bases)}):" if bases else f"class {name}:")
    body = list(init_lines) + [ln for member in extra for ln in [""] + member]
    if not body:
        body = ["    pass"]
    prog.lines += body + ["", ""]


def emit_leaf_class(prog, layout, level, name=None, members=()):
    name = name or prog.uname("C")
    ps = own(prog, layout, level)
    emit_class(prog, name, [], emit_fn(prog, "__init__", ps, None, [], None, indent="    ", first="self", where=f"{name}.__init__"), members)
    return Unit(name, "init", ps, list(ps))


def emit_class_over(prog, base, link, layout, level, below=None):
    """A subclass of `base` whose __init__ forwards to super().__init__ with the link variant. `below` is base's base."""
    name = prog.uname("C")
    if link == "noinit":
        emit_class(prog, name, [base.name], [])
        return Unit(name, "init", [], list(base.reach))
    target = base
    callee = "super().__init__"
    if link == "super2" and below is not None:
        target, callee = below, f"super({base.name}, self).__init__"
    hard_pos, hard_kw, star, shadow = link_args(prog, link, target, level)
    if shadow:
        layout = shadowed_layout(layout)
    ps = own(prog, layout, level, names=shadow)
    pops = make_pops(prog, link, level, target)
    kw = ["kwargs", "kw", "kwds"][level % 3]
    where = f"{name}.__init__"
    if link == "nokw":
        lines = emit_fn(prog, "__init__", ps, None, [], ("fwd", FwdNoKw(callee)), indent="    ", first="self", where=where)
        reach = list(ps)
    elif link == "unused":
        lines = emit_fn(prog, "__init__", ps, kw, [], ("fwd", FwdNoKw(callee)), indent="    ", first="self", where=where)
        reach = list(ps)
    elif link == "explicit":
        # the parent's method called through the class with the instance handed over: `self` is not one of the parent's parameters
        f = Fwd(f"{base.name}.__init__", ["self"], [], (), False)
        lines = emit_fn(prog, "__init__", ps, kw, pops, ("fwd", f), indent="    ", first="self", where=where)
        gone = {p.name for p in ps} | {p[1] for p in pops}
        reach = ps + [p for p in target.reach if p.name not in gone]
    else:
        f = Fwd(callee, hard_pos, hard_kw, (), star)
        f.kw_late = link == "hardkwlate"
        lines = emit_fn(prog, "__init__", ps, kw, pops, ("fwd", f), star_args=star, indent="    ", first="self", where=where)
        gone = {k for k, _ in hard_kw} | ({target.own[0].name} if hard_pos else set()) | {p.name for p in ps} | {p[1] for p in pops}
        reach = ps + [p for p in target.reach if p.name not in gone]
    emit_class(prog, name, [base.name], lines)
    return Unit(name, "init", ps, reach)


class FwdNoKw(Fwd):
    """super().__init__() without forwarding anything."""

    def expr(self, kw, spread=None):
        return f"{self.callee}()"


def needs_defaults(links):
    return any(l in ("nokw", "unused") for l in links)


def class_chain(prog, links, layouts, bottom=None):
    """bottom <- ... <- top; links[i] is the variant of level i+1 over level i."""
    below = None
    lay0 = layouts[0]
    if needs_defaults(links) or "super2" in links:
        lay0 = "d" if lay0 in ("r", "rd", "dk") else lay0
    cur = bottom or emit_leaf_class(prog, lay0, 0)
    for i, link in enumerate(links):
        lay = layouts[(i + 1) % len(layouts)]
        if needs_defaults(links[i:]) or "super2" in links[i:]:
            lay = "d" if lay in ("r", "rd", "dk") else lay
        nxt = emit_class_over(prog, cur, link, lay, i + 1, below)
        below, cur = cur, nxt
    return cur


def fn_chain(prog, links, layouts, bottom=None):
    cur = bottom or emit_leaf_fn(prog, layouts[0], 0)
    for i, link in enumerate(links):
        cur = emit_fn_over(prog, cur, link, layouts[(i + 1) % len(layouts)], i + 1)
    return cur


def gen_programs(h):
    """Yields Prog objects in a fixed order."""
    counter = [0]
    D = 5 if h.thorough else 3
    FULL = 4 if h.thorough else 3  # every combination of link variants up to this depth
    lay_cycles = [["rd", "d", "dk"], ["d", "k", "r"], ["0", "rd", "d"], ["dk", "0", "dd"]]

    # ---- A: class hierarchies through super().__init__, depth 1..D
    for lay in LAYOUTS:
        p = new_prog(counter, f"cls:d1:{lay}")
        p.top = (emit_leaf_class(p, lay, 0), None)
        yield p
        p = new_prog(counter, f"cls:d1:{lay}:unused-kwargs")
        ps = own(p, lay, 0)
        emit_class(p, "C1", [], emit_fn(p, "__init__", ps, "kwargs", [], ("unused",), indent="    ", first="self", where="C1.__init__"))
        p.top = (Unit("C1", "init", ps, ps), None)
        yield p
    for d in range(2, D + 1):
        if d <= FULL:
            combos = list(itertools.product(CLASS_LINKS, repeat=d - 1))
        else:
            combos = [tuple(v if j == pos else "plain" for j in range(d - 1)) for pos in range(d - 1) for v in CLASS_LINKS]
            combos = list(dict.fromkeys(combos))
        for ci, links in enumerate(combos):
            if "super2" in links[:1]:
                continue  # needs two levels below
            for li in range(4 if d <= 3 else 1):
                p = new_prog(counter, f"cls:d{d}:{'/'.join(links)}:{'+'.join(lay_cycles[(ci + li) % 4])}")
                p.top = (class_chain(p, links, lay_cycles[(ci + li) % 4]), None)
                yield p

    # ---- A2: super(X, self) that skips a base *below* the top class (depth 4 and 5; in the quick tier depth 4 is otherwise not reached)
    for links in [("plain", "super2", "plain"), ("plain", "super2", "hardkw"), ("hardkw", "super2", "plain"), ("plain", "super2", "popa"), ("plain", "plain", "super2", "plain"),
                  ("plain", "super2", "super2"), ("plain", "super2", "plain", "plain")]:
        if any(l not in CLASS_LINKS for l in links):
            continue
        for li in range(2):
            p = new_prog(counter, f"cls:d{len(links) + 1}:{'/'.join(links)}:{'+'.join(lay_cycles[li])}:skip-below-top")
            p.top = (class_chain(p, links, lay_cycles[li]), None)
            yield p

    # ---- B: function call chains, depth 1..D, with different bottoms
    for lay in LAYOUTS:
        p = new_prog(counter, f"fn:d1:{lay}")
        p.top = (emit_leaf_fn(p, lay, 0), None)
        yield p
    for d in range(2, D + 1):
        if d <= FULL:
            combos = list(itertools.product(LINKS, repeat=d - 1))
        else:
            combos = [tuple(v if j == pos else "plain" for j in range(d - 1)) for pos in range(d - 1) for v in LINKS]
            combos = list(dict.fromkeys(combos))
        for ci, links in enumerate(combos):
            for li in range(4 if d <= 3 else 1):
                p = new_prog(counter, f"fn:d{d}:{'/'.join(links)}:{'+'.join(lay_cycles[(ci + li) % 4])}")
                p.top = (fn_chain(p, links, lay_cycles[(ci + li) % 4]), None)
                yield p
    # function over a class hierarchy / class over nothing but called from a function
    for ci, (flink, clink) in enumerate(itertools.product(LINKS, ["plain", "hardkw", "popb", "noinit", "super2"])):
        p = new_prog(counter, f"fn>cls:{flink}>{clink}")
        lays = lay_cycles[ci % 4]
        links = (clink,) if clink != "super2" else ("plain", "super2")
        top_cls = class_chain(p, links, lays)
        p.top = (emit_fn_over(p, top_cls, flink, lays[1], len(links) + 1), None)
        yield p

    # ---- B2: other documented callee forms at the bottom of a function
    for ci, form in enumerate(["classmethod", "staticmethod", "localimport", "localimport-from", "localimport-as", "localinstance", "localinstance-static",
                               "moduleinstance", "classmethod-cls"]):
        for link in ["plain", "hardkw", "popb"]:
            for lay in (["rd", "d"] if not h.thorough else ["rd", "d", "dk", "k"]):
                p = new_prog(counter, f"fn>{form}:{link}:{lay}")
                target, callee, prelude = callee_form(p, form, lay)
                p.top = (emit_fn_over(p, target, link, "d", 1, callee=callee, prelude=prelude), None)
                yield p

    # ---- C: multiple inheritance
    for variant in ["coop", "left-noncoop", "right-noinit", "left-hardkw", "skip-left", "mixin-first", "two-roots", "left-popb", "left-noinit-right-hardkw", "left-noinit-right-hardpos"]:
        for lays in lay_cycles[:2] if not h.thorough else lay_cycles:
            p = new_prog(counter, f"mi:{variant}:{'+'.join(lays)}")
            p.top = (diamond(p, variant, lays), None)
            yield p

    # ---- C2: histories - several classes of one family resolved one after the other in the same process (what is offered
    # for a class must not depend on which other classes were resolved before; Left's super() is Right inside Top but Root inside Solo)
    for variant in ["coop", "left-hardkw", "left-popb"]:
        for order in [("Top", "Solo"), ("Solo", "Top"), ("Top", "Left", "Solo"), ("Left", "Top"), ("Top", "Solo", "Top")]:
            p = new_prog(counter, f"mi-history:{variant}:{'>'.join(order)}")
            top = diamond(p, variant, lay_cycles[0])
            ps = own(p, "d", 3)
            emit_class(p, "Solo", ["Left"], emit_fn(p, "__init__", ps, "kwargs", [], ("fwd", Fwd("super().__init__")), indent="    ", first="self", where="Solo.__init__"))
            units = {"Top": top, "Solo": Unit("Solo", "init", ps, ps), "Left": Unit("Left", "init", [], [])}
            p.tops = [(units[n], None) for n in order]
            p.top = p.tops[0]
            yield p

    # ---- D: kwargs stored in an attribute and used in a method / property
    for variant in ["plain", "dictcopy", "dicthard", "dictupd", "dictlit"]:
        for consumer in ["method", "property", "private-method"]:
            for tform in ["fn", "class", "classmethod", "staticmethod-self"]:
                for pos in ["top", "base"]:
                    if h.thorough or (consumer != "private-method" or tform == "fn"):
                        p = new_prog(counter, f"attr:{variant}:{consumer}:{tform}:{pos}")
                        p.top = (attr_program(p, variant, consumer, tform, pos), None)
                        yield p

    # ---- E: __init__ forwards to a method of self
    for link in ["plain", "hardkw", "hardpos", "popb", "star"]:
        for deeper in [False, True]:
            p = new_prog(counter, f"selfmethod:{link}:{'fwd' if deeper else 'leaf'}")
            p.top = (self_method(p, link, deeper), None)
            yield p

    # ---- F: conditionals
    for mode in ["const-TT", "const-FT", "const-FF", "const-TF", "flag"]:
        for overlap in ["disjoint", "same", "default-differs", "type-differs", "hard-in-first", "hard-in-second"]:
            p = new_prog(counter, f"cond:{mode}:{overlap}")
            p.top = (conditional(p, mode, overlap), None)
            yield p

    # two unconditional calls of the same callee with different hard-coded keywords (both hard-coded names are unpassable)
    for variant in ["hard-a/hard-b", "hard-a/plain", "plain/plain"]:
        for where in ["fn", "class"]:
            p = new_prog(counter, f"seq:{variant}:{where}")
            p.top = (sequential(p, variant, where), None)
            yield p

    # ---- G: components that are methods
    for form in ["classmethod-cls", "method-super", "staticmethod-fn"]:
        for link in ["plain", "hardkw", "popb"]:
            p = new_prog(counter, f"method:{form}:{link}")
            p.top = method_component(p, form, link)
            yield p

    # ---- H: pop / get only
    for op in ["pop", "get"]:
        for dkind in ["int", "str", "none", "emptydict", "emptylist", "call", "name"]:
            for where in ["fn", "class"]:
                p = new_prog(counter, f"popget:{op}:{dkind}:{where}")
                p.top = (popget_only(p, op, dkind, where), None)
                yield p
    for combo in ["get+forward-open", "get+forward-closed", "pop+forward-closed", "pop-after-forward", "get-same-as-callee", "pop-same-as-callee"]:
        for where in ["fn", "class"]:
            p = new_prog(counter, f"popget:{combo}:{where}")
            p.top = (popget_combo(p, combo, where), None)
            yield p

    # ---- R: seeded random chains (thorough)
    if h.thorough:
        for _ in range(3000):
            d = h.rng.randint(3, 5)
            lays = [h.rng.choice(list(LAYOUTS)) for _ in range(3)]
            if h.rng.random() < 0.5:
                links = tuple(h.rng.choice(CLASS_LINKS) for _ in range(d - 1))
                if links[0] == "super2":
                    links = ("plain",) + links[1:]
                p = new_prog(counter, f"rnd:cls:{'/'.join(links)}:{'+'.join(lays)}")
                p.top = (class_chain(p, links, lays), None)
            else:
                links = tuple(h.rng.choice(LINKS) for _ in range(d - 1))
                p = new_prog(counter, f"rnd:fn:{'/'.join(links)}:{'+'.join(lays)}")
                p.top = (fn_chain(p, links, lays), None)
            yield p


def callee_form(prog, form, lay):
    """Emit the callee for the B2 family: -> (Unit, callee source text, prelude lines)."""
    if form in ("classmethod", "staticmethod"):
        ps = own(prog, lay, 0)
        deco = form
        m = emit_fn(prog, "make", ps, None, [], None, decorator=deco, indent="    ", first="cls" if form == "classmethod" else None, where="K.make")
        emit_class(prog, "K", [], [], [m])
        return Unit("K.make", "fn", ps, list(ps), call_src="K.make"), "K.make", ()
    if form == "classmethod-cls":
        base = emit_leaf_class(prog, lay, 0, name="K", members=[["    @classmethod", "    def make(cls, **kwargs):", '        _rec("K.make")', "        return cls(**kwargs)"]])
        return Unit("K.make", "fn", [], list(base.reach), call_src="K.make"), "K.make", ()
    if form.startswith("localimport"):
        leaf = emit_leaf_fn(prog, lay, 0, module_lines=prog.aux_lines, name="auxfn")
        if form == "localimport":
            return leaf, f"{prog.aux}.auxfn", (f"import {prog.aux}",)
        if form == "localimport-from":
            return leaf, "auxfn", (f"from {prog.aux} import auxfn",)
        return leaf, "renamed", (f"from {prog.aux} import auxfn as renamed",)
    # instance forms
    ps = own(prog, lay, 0)
    static = form == "localinstance-static"
    m = emit_fn(prog, "work", ps, None, [], None, decorator="staticmethod" if static else None, indent="    ", first=None if static else "self", where="K.work")
    emit_class(prog, "K", [], [], [m])
    if form == "moduleinstance":
        prog.lines += ["INSTANCE = K()", "", ""]
        return Unit("K.work", "fn", ps, list(ps)), "INSTANCE.work", ()
    return Unit("K.work", "fn", ps, list(ps)), "an_instance.work", ("an_instance = K()",)


def diamond(prog, variant, lays):
    root = emit_leaf_class(prog, "d" if variant in ("left-noncoop",) else lays[0], 0, name="Root")
    if variant == "two-roots":
        other = emit_leaf_class(prog, "d", 0, name="Other")
    # right branch
    if variant == "right-noinit":
        emit_class(prog, "Right", ["Root"], [])
        right = Unit("Right", "init", [], list(root.reach))
    elif variant in ("left-noinit-right-hardkw", "left-noinit-right-hardpos"):
        right = emit_named_over(prog, "Right", "Root", root, variant.rsplit("-", 1)[1], "d", 1)
    elif variant == "two-roots":
        right = other
        right.name = "Other"
    else:
        right = emit_named_over(prog, "Right", "Root", root, "plain", "d", 1)
    # left branch: in the diamond its super() is Right, not Root
    left_link = {"left-hardkw": "hardkw", "left-popb": "popb"}.get(variant, "plain")
    if variant == "left-noncoop":
        ps = own(prog, "d", 1)
        emit_class(prog, "Left", ["Root"], emit_fn(prog, "__init__", ps, None, [], None, indent="    ", first="self", where="Left.__init__"))
        left = Unit("Left", "init", ps, list(ps))
    elif variant.startswith("left-noinit"):
        # Left merely inherits Root's __init__; inside Top its successor is Right, which is not one of Left's ancestors
        emit_class(prog, "Left", ["Root"], ["    def _helper(self):", "        return 1"])
        left = Unit("Left", "init", [], list(root.reach))
    elif variant == "mixin-first":
        emit_class(prog, "Left", [], ["    def _helper(self):", "        return 1"])
        left = Unit("Left", "init", [], [])
    else:
        # hard-coded keyword of Left must be valid for Left standing alone *and* in the diamond: use Root's
        left = emit_named_over(prog, "Left", "Root", root, left_link, lays[1], 1, reach_extra=[] if variant == "two-roots" else right.own)
    bases = ["Left", right.name]
    ps = own(prog, lays[2], 2)
    if variant == "skip-left":
        f = Fwd("super(Left, self).__init__")
    else:
        f = Fwd("super().__init__")
    emit_class(prog, "Top", bases, emit_fn(prog, "__init__", ps, "kwargs", [], ("fwd", f), indent="    ", first="self", where="Top.__init__"))
    return Unit("Top", "init", ps, ps)


def emit_named_over(prog, name, base_name, base, link, layout, level, reach_extra=()):
    hard_pos, hard_kw, star, shadow = link_args(prog, link, base, level)
    ps = own(prog, layout, level)
    pops = make_pops(prog, link, level, base)
    f = Fwd("super().__init__", hard_pos, hard_kw, (), star)
    f.kw_late = link == "hardkwlate"
    emit_class(prog, name, [base_name], emit_fn(prog, "__init__", ps, "kwargs", pops, ("fwd", f), indent="    ", first="self", where=f"{name}.__init__"))
    return Unit(name, "init", ps, ps + list(reach_extra) + list(base.reach))


def attr_program(prog, variant, consumer, tform, pos):
    # the final callee
    if tform == "fn":
        target = emit_leaf_fn(prog, "rd", 0)
        callee = target.name
    elif tform == "class":
        target = emit_leaf_class(prog, "rd", 0)
        callee = target.name
    elif tform == "classmethod":
        ps = own(prog, "rd", 0)
        emit_class(prog, "K", [], [], [emit_fn(prog, "make", ps, None, [], None, decorator="classmethod", indent="    ", first="cls", where="K.make")])
        target, callee = Unit("K.make", "fn", ps, list(ps)), "K.make"
    else:
        target, callee = None, "self.helper"
    holder = "Holder"
    members = []
    if tform == "staticmethod-self":
        ps = own(prog, "rd", 0)
        members.append(emit_fn(prog, "helper", ps, None, [], None, decorator="staticmethod", indent="    ", where="Holder.helper"))
        target = Unit("Holder.helper", "fn", ps, list(ps))
    hard = None
    if variant in ("dicthard", "dictupd", "dictlit"):
        p = target.reach[0] if variant == "dictupd" or variant == "dictlit" else target.reach[-1]
        hard = (p.name, repr(p.want))
        prog.tags[p.name] = prog.tags[p.name] + (".dict-preset-overridable" if variant != "dicthard" else ".dict-hardcoded")
    cname = {"method": "consume", "property": "consumed", "private-method": "_consume"}[consumer]
    cons = (["    @property"] if consumer == "property" else []) + [f"    def {cname}(self):", f'        _rec("Holder.{cname}")', f"        return {callee}(**self._kw)"]
    members.append(cons)
    ps = own(prog, "d", 1)
    init = emit_fn(prog, "__init__", ps, "kwargs", [], ("attr", variant, None, hard), indent="    ", first="self", where="Holder.__init__")
    emit_class(prog, holder, [], init, members)
    prog.drive = cname
    unit = Unit(holder, "init", ps, ps + list(target.reach))
    if pos == "base":
        unit = emit_class_over(prog, unit, "plain", "d", 2)
    return unit


def self_method(prog, link, deeper):
    name = "Owner"
    if deeper:
        leaf = emit_leaf_fn(prog, "rd", 0)
        mps = own(prog, "d", 1)
        method = emit_fn(prog, "setup", mps, "kw", [], ("fwd", Fwd(leaf.name)), indent="    ", first="self", where="Owner.setup")
        target = Unit("setup", "fn", mps, mps + list(leaf.reach))
    else:
        mps = own(prog, "rd", 1)
        method = emit_fn(prog, "setup", mps, None, [], None, indent="    ", first="self", where="Owner.setup")
        target = Unit("setup", "fn", mps, list(mps))
    hard_pos, hard_kw, star, shadow = link_args(prog, link, target, 2)
    ps = own(prog, "d", 2)
    pops = make_pops(prog, link, 2, target)
    init = emit_fn(prog, "__init__", ps, "kwargs", pops, ("fwd", Fwd("self.setup", hard_pos, hard_kw, (), star)), star_args=star, indent="    ", first="self", where="Owner.__init__")
    emit_class(prog, name, [], init, [method])
    return Unit(name, "init", ps, ps)


def conditional(prog, mode, overlap):
    # two (three for constants) callees with controlled overlap of parameter names
    common = {"disjoint": None, "same": ("shared", 0, 0), "default-differs": ("shared", 0, 0), "type-differs": ("shared", 0, 1)}.get(overlap, ("shared", 0, 0))
    units = []
    for i in range(3 if mode.startswith("const") else 2):
        name = f"branch{i}"
        ps = own(prog, "d", 0)
        if common:
            sp = Param("shared", i if overlap == "type-differs" else 0, False, False, f"branch{i}.shared")
            if overlap == "default-differs":
                sp.dflt = str(10 + i)
            prog.note_name("shared", "branches.shared")
            ps = ps + [sp]
            prog.all_params.append(sp)
        prog.lines += emit_fn(prog, name, ps, None, [], None) + ["", ""]
        units.append(Unit(name, "fn", ps, list(ps)))
    fwds = []
    for i, u in enumerate(units):
        hard_kw = []
        if (overlap == "hard-in-first" and i == 0) or (overlap == "hard-in-second" and i == 1):
            hard_kw = [("shared", "99")]
            prog.tags["shared"] = f"branches.shared+hardkw-in-branch{i}"
        fwds.append(Fwd(u.name, (), hard_kw))
    ps = []
    if mode == "flag":
        prog.flag = "use_first"
        fp = Param("use_first", 3, False, False, "top.flag")
        prog.note_name("use_first", "top.flag")
        prog.all_params.append(fp)
        ps = [fp]
        conds = [("use_first", fwds[0]), (None, fwds[1])]
    else:
        g1, g2 = mode[-2] == "T", mode[-1] == "T"
        prog.consts = {"GLOBAL_ONE": g1, "GLOBAL_TWO": g2}
        conds = [("GLOBAL_ONE", fwds[0]), ("not GLOBAL_TWO", fwds[1]), (None, fwds[2])]
    prog.lines += emit_fn(prog, "chooser", ps, "kwargs", [], ("cond", conds)) + ["", ""]
    return Unit("chooser", "fn", ps, ps)


def sequential(prog, variant, where):
    ps0 = own(prog, "dd", 0) + own(prog, "dd", 0)
    prog.lines += emit_fn(prog, "callee", ps0, None, [], None) + ["", ""]
    fwds = []
    for i, v in enumerate(variant.split("/")):
        hard = []
        if v != "plain":
            p = ps0[1 + 2 * i]
            hard = [(p.name, p.dflt)]
            prog.tags[p.name] += f"+hardkw-in-call{i}"
        fwds.append(Fwd("callee", (), hard))
    ps = own(prog, "d", 1)
    is_init = where == "class"
    name, wh = ("__init__", "Twice.__init__") if is_init else ("twice", "twice")
    lines = [f"def {name}({signature(ps, first='self' if is_init else None, kw='kwargs')}):", "    " + rec_line(wh, ps)]
    for p in ps:
        p.where = wh
    lines += ["    " + f.expr("kwargs") for f in fwds]
    if is_init:
        emit_class(prog, "Twice", [], ["    " + ln for ln in lines])
        return Unit("Twice", "init", ps, ps)
    prog.lines += lines + ["", ""]
    return Unit("twice", "fn", ps, ps)


def method_component(prog, form, link):
    if form == "classmethod-cls":
        base = emit_leaf_class(prog, "rd", 0, name="Base")
        target = Unit("Base", "init", base.own, base.reach)
        hard_pos, hard_kw, star, shadow = link_args(prog, link, target, 1)
        ps = own(prog, "d", 1)
        pops = make_pops(prog, link, 1, target)
        m = emit_fn(prog, "build", ps, "kwargs", pops, ("fwd", Fwd("cls", hard_pos, hard_kw)), decorator="classmethod", indent="    ", first="cls", where="Made.build")
        emit_class(prog, "Made", ["Base"], [], [m])
        return Unit("Made", "init", ps, ps), "build"
    if form == "method-super":
        mps = own(prog, "rd", 0)
        emit_class(prog, "Base", [], [], [emit_fn(prog, "run", mps, None, [], None, indent="    ", first="self", where="Base.run")])
        target = Unit("run", "fn", mps, list(mps))
        hard_pos, hard_kw, star, shadow = link_args(prog, link, target, 1)
        ps = own(prog, "d", 1)
        pops = make_pops(prog, link, 1, target)
        m = emit_fn(prog, "run", ps, "kws", pops, ("fwd", Fwd("super().run", hard_pos, hard_kw)), indent="    ", first="self", where="Child.run")
        emit_class(prog, "Child", ["Base"], [], [m])
        return Unit("Child", "init", ps, ps), "run"
    leaf = emit_leaf_fn(prog, "rd", 0)
    hard_pos, hard_kw, star, shadow = link_args(prog, link, leaf, 1)
    ps = own(prog, "d", 1)
    pops = make_pops(prog, link, 1, leaf)
    m = emit_fn(prog, "tool", ps, "kw", pops, ("fwd", Fwd(leaf.name, hard_pos, hard_kw)), decorator="staticmethod", indent="    ", where="Box.tool")
    emit_class(prog, "Box", [], [], [m])
    return Unit("Box", "init", ps, ps), "tool"


def popget_only(prog, op, dkind, where):
    dsrc, dval = {"int": ("2", 2), "str": ("'text'", "text"), "none": ("None", None), "emptydict": ("{}", {}), "emptylist": ("[]", []),
                  "call": ("dict(a=1)", UNSUPPORTED), "name": ("DEFAULT_VALUE", UNSUPPORTED)}[dkind]
    prog.consts = {"DEFAULT_VALUE": 17}
    prog.note_name("wanted", f"{op}.{dkind}")
    pops = [(op, "wanted", dsrc, "before", dval)]
    ps = own(prog, "d", 0)
    if where == "fn":
        prog.lines += emit_fn(prog, "taker", ps, "kwargs", pops, ("unused",)) + ["", ""]
        return Unit("taker", "fn", ps, ps)
    emit_class(prog, "Taker", [], emit_fn(prog, "__init__", ps, "kwargs", pops, ("unused",), indent="    ", first="self", where="Taker.__init__"))
    return Unit("Taker", "init", ps, ps)


def popget_combo(prog, combo, where):
    if combo == "get+forward-open":
        # callee swallows unknown keywords itself
        lps = own(prog, "d", 0)
        prog.lines += emit_fn(prog, "sink", lps, "rest", [], ("unused",)) + ["", ""]
        leaf = Unit("sink", "fn", lps, list(lps))
    else:
        leaf = emit_leaf_fn(prog, "dd", 0)
    pops = []
    if combo in ("get+forward-open", "get+forward-closed"):
        prog.note_name("peeked", "get-then-forwarded")
        pops = [("get", "peeked", "1", "before", 1)]
    elif combo == "pop+forward-closed":
        prog.note_name("taken", "pop-then-forwarded")
        pops = [("pop", "taken", "1", "before", 1)]
    elif combo == "pop-after-forward":
        prog.note_name("late", "pop-after-forward")
        pops = [("pop", "late", "1", "after", 1)]
    elif combo == "get-same-as-callee":
        p = leaf.own[0]
        prog.tags[p.name] += "+get-same"
        pops = [("get", p.name, "None", "before", None)]
    elif combo == "pop-same-as-callee":
        p = leaf.own[0]
        prog.tags[p.name] += "+pop-same"
        pops = [("pop", p.name, "None", "before", None)]
    ps = own(prog, "d", 1)
    if where == "fn":
        prog.lines += emit_fn(prog, "outer", ps, "kwargs", pops, ("fwd", Fwd(leaf.name))) + ["", ""]
        return Unit("outer", "fn", ps, ps)
    emit_class(prog, "Outer", [], emit_fn(prog, "__init__", ps, "kwargs", pops, ("fwd", Fwd(leaf.name)), indent="    ", first="self", where="Outer.__init__"))
    return Unit("Outer", "init", ps, ps)


def main():
    h = Harness("b13_kwargs_resolver", rule="one generated program (real source file) per case; evaluations: one per candidate name for the set clause (offered <=> "
                "passable according to the interpreter), one or two per flag value for the call clause (direct call and auto_cli with every offered "
                "parameter), one per offered unconditional parameter for the origin clause; non-trivial = distinct program shapes (pattern, "
                "depth, link variants, parameter layouts); every program has at least one named parameter or popped key")
    stats = {"programs": 0, "forwarded": 0, "conditional": 0}
    saved_path = list(sys.path)
    with tempfile.TemporaryDirectory() as tmp:
        sys.path.insert(0, tmp)
        sys.dont_write_bytecode, old_dwb = True, sys.dont_write_bytecode
        try:
            for prog in gen_programs(h):
                if h.only and h.only != prog.shape:
                    continue
                tops = getattr(prog, "tops", [prog.top])
                for ti, top in enumerate(tops):
                    prog.top = top
                    check_program(h, prog, tmp, stats, keep_module=ti < len(tops) - 1)
        finally:
            sys.path[:] = saved_path
            sys.dont_write_bytecode = old_dwb
            for name in [m for m in sys.modules if m.startswith(("c13gen_", "c13aux_"))]:
                del sys.modules[name]
    h.note(f"programs: {stats['programs']}; parameters reached through forwarding: {stats['forwarded']}; parameters marked Conditional by the resolver (origin clause skipped): {stats['conditional']}")
    if not stats["forwarded"]:
        h.violation("b13_kwargs_resolver:vacuous", "no parameter was ever reached through **kwargs")
    D = 5 if h.thorough else 3
    sys.exit(h.finish(exhaustive=True, bound=f"class hierarchies and function chains of depth 1..{D} (all link-variant combinations up to depth {4 if h.thorough else 3}, one special link per "
                      f"position above), {len(CLASS_LINKS)} class / {len(LINKS)} function link variants, 4 rotations of 7 parameter layouts; 9 callee forms x 3 links; 8 multiple-inheritance "
                      "shapes; 5 attribute variants x 3 consumers x 4 callees x 2 positions; self-method, conditional (4 constant settings + run-time flag) x 6 "
                      "overlaps, 3 sequential double calls, method components, pop/get (7 default kinds, 6 combinations)" + ("; 3000 seeded random chains of depth 3..5" if h.thorough else "")))


if __name__ == "__main__":
    main()
