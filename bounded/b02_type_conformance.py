"""C02 bounded stand-in: accepted values conform to the declared type; acceptance is compositional.

For every type hint T of a grammar (atoms str/int/float/bool/Literal/Enum/restricted numbers; Optional, Union of 2-3
members in every permutation, List, Dict[str,.], Tuple fixed 1-3 and ellipsis, Set; nesting depth <= 4) a parser with one
argument `--k: T` is built and every candidate value is given to it through `parse_object({'k': value})` and
`parse_args(['--k=' + text])`.  Checked (all judged by code written from the statement, never by a second call of the
function under test on the same input):

 conform   a successful parse returns a value that conforms to T: `conforms(result, T)` is an independent structural validator
           (right Python type at every level, tuple arity, Literal/Enum membership with the member's own type, restricted
           predicate).  The same validator is installed as a run-time post-condition on the real `adapt_typehints`.
 accept    acceptance is compositional: real acceptance == acc(value, T), where acc is the executable twin of the statement:
             acc(v, List[E]) = all(acc(e, E))     acc(v, Tuple[E1..En]) = len(v) == n and all(acc(v[i], Ei))
             acc(v, Dict[str,E]) = all(acc(x, E)) acc(v, Union[Ms]) = any(acc(v, M))   (order of Ms irrelevant)
             acc(v, atom) = what the *atom's own parser* answers for v (relational, another parser),  acc(None, NoneType) = True
           and three-valued: where the statement is silent (a value of another container kind) nothing is asserted.
           A command-line text denotes the container / null it spells (json for rendered values, PyYAML for the look-alike
           strings) or itself as a string.
 atom      a conforming value / its canonical text is never rejected by the atom's parser.
 order     every permutation of the members of a Union accepts the same inputs.
 declare   a Union / container hint can be declared (add_argument) whatever the order of its members.

What is deliberately *not* asserted (the statement is silent): whether an atom converts a value of another kind ('3' -> 3 is
jsonargparse's normal behaviour, so int -> str or 1.0 -> 1 would not be violations either; only the result's conformance is
checked), which member's value a multi-accepting Union returns, and values of another container kind (a tuple for List).

The work is spread over WORKERS forked processes by type index; the parent merges their events in the order of the type
enumeration, so the report does not depend on the number of workers.  Path types are left to C19.

Defect classes met on the unchanged tree (tight keys; nothing is special-cased away; see `emit` for how unboundedly many
failing inputs of one defect are listed): the Union string fall-back (`vals[-1]`, known) - symptoms 'rejected:str-union:text',
'accepted:str-union:text' (an element that no member accepts is replaced by the whole argument text), 'Union<-ValueError/TypeError'
on adapt_typehints, 'order/str-member:text'; Literal membership by `==` only ('Literal[1,2]<-bool/float'); Dict[str, .] keys not
checked ('dictkey<-int'); Union[None, Enum] cannot be declared ('declare').
"""
import copy
import enum
import itertools
import json
import os
import sys
import tempfile
import typing
from typing import Dict, List, Literal, Optional, Set, Tuple, Union

import yaml  # PyYAML itself (not jsonargparse's loader): only to know which look-alike texts spell a container or null

from bounded.common import Harness, outcome, quiet

import jsonargparse._typehints as jth
from jsonargparse import ArgumentParser
from jsonargparse.typing import OpenUnitInterval, PositiveInt

NoneType = type(None)


class Color(enum.Enum):
    RED = 1
    GREEN = 2


# --------------------------------------------------------------------------------------------------------------------
# the type grammar
# --------------------------------------------------------------------------------------------------------------------
class Ty:
    """A node of the grammar: kind in atom/none/union/list/dict/set/tuple/vtuple; `hint` is the typing object whose
    __args__ are in exactly the order of `args` (typing's caches merge Union permutations, so hints are built uncached)."""

    def __init__(self, kind, name, hint, args=(), depth=0):
        self.kind, self.name, self.hint, self.args, self.depth = kind, name, hint, tuple(args), depth

    def __repr__(self):
        return self.name


ATOMS = {}


def atom(name, hint, conf, good, texts):
    ATOMS[name] = Ty("atom", name, hint)
    ATOMS[name].conf, ATOMS[name].good, ATOMS[name].texts = conf, good, texts
    return ATOMS[name]


def is_int(r):
    return isinstance(r, int) and not isinstance(r, bool)


T_STR = atom("str", str, lambda r: isinstance(r, str), ["abc", "", "null", "1e3", "[1, 2]", "{a: 1}", "~", " ", "true", "010", "a: b", "-"],
             ["abc", "", "null", "1e3", "[1, 2]", "{a: 1}", "~", " ", "true", "010", "a: b", "-", "._", "1_000", "0x10", "1:30", "=", "*x", "&a", "2020-01-01"])
T_INT = atom("int", int, is_int, [0, -7, 10**20], ["0", "-7", "100000000000000000000"])
T_FLOAT = atom("float", float, lambda r: isinstance(r, (int, float)) and not isinstance(r, bool), [2.5, -0.0, 1e300, 3, 1e-7], ["2.5", "-0.0", "1e+300", "3", "1e-07"])
T_BOOL = atom("bool", bool, lambda r: isinstance(r, bool), [True, False], ["true", "false"])
T_LITS = atom("Literal['a','b']", Literal["a", "b"], lambda r: type(r) is str and r in ("a", "b"), ["a", "b"], ["a", "b"])
T_LITI = atom("Literal[1,2]", Literal[1, 2], lambda r: type(r) is int and r in (1, 2), [1, 2], ["1", "2"])
T_ENUM = atom("Color", Color, lambda r: isinstance(r, Color), [Color.RED, Color.GREEN], ["RED", "GREEN"])
T_POS = atom("PositiveInt", PositiveInt, lambda r: is_int(r) and r > 0, [1, 5, 10**20], ["1", "5"])
T_LITM = atom("Literal['x',3]", Literal["x", 3], lambda r: (type(r) is str and r == "x") or (type(r) is int and r == 3), ["x", 3], ["x", "3"])
T_UNIT = atom("OpenUnitInterval", OpenUnitInterval, lambda r: isinstance(r, float) and 0 < r < 1, [0.5, 0.25], ["0.5", "0.25"])
T_NONE = Ty("none", "None", NoneType)
QUICK_ATOMS = [T_STR, T_INT, T_FLOAT, T_BOOL, T_LITS, T_LITI, T_ENUM, T_POS]
ALL_ATOMS = QUICK_ATOMS + [T_LITM, T_UNIT]

_BASE = {"list": List[int], "dict": Dict[str, int], "set": Set[int], "tuple": Tuple[int, int], "vtuple": Tuple[int, ...]}


def depth_of(args):
    return 1 + max((a.depth for a in args), default=0)


def t_union(*members):
    flat = []
    for m in members:
        for x in (m.args if m.kind == "union" else (m,)):
            if x.name not in [f.name for f in flat]:
                flat.append(x)
    if len(flat) == 1:
        return flat[0]
    hint = typing.Union._getitem(typing.Union, tuple(m.hint for m in flat))  # uncached: keeps exactly this member order
    return Ty("union", "Union[" + ",".join(m.name for m in flat) + "]", hint, flat, depth_of(flat))


def t_opt(t, none_first=False):
    return t_union(T_NONE, t) if none_first else t_union(t, T_NONE)


def t_list(e):
    return Ty("list", f"List[{e.name}]", _BASE["list"].copy_with((e.hint,)), [e], depth_of([e]))


def t_dict(e):
    return Ty("dict", f"Dict[str,{e.name}]", _BASE["dict"].copy_with((str, e.hint)), [e], depth_of([e]))


def t_set(e):
    return Ty("set", f"Set[{e.name}]", _BASE["set"].copy_with((e.hint,)), [e], depth_of([e]))


def t_tuple(*es):
    return Ty("tuple", "Tuple[" + ",".join(e.name for e in es) + "]", _BASE["tuple"].copy_with(tuple(e.hint for e in es)), es, depth_of(es))


def t_vtuple(e):
    return Ty("vtuple", f"Tuple[{e.name},...]", _BASE["vtuple"].copy_with((e.hint, ...)), [e], depth_of([e]))


def hint_matches(ty, hint=None):
    """The typing object really has the member order of the Ty tree (guards against typing's caches)."""
    hint = ty.hint if hint is None else hint
    if ty.kind in ("atom", "none"):
        return hint is ty.hint
    args = [a for a in typing.get_args(hint) if a is not Ellipsis]
    if ty.kind == "dict":
        args = args[1:]
    return len(args) == len(ty.args) and all(hint_matches(a, x) for a, x in zip(ty.args, args))


def hashable(t):
    return t.kind in ("atom", "none") or (t.kind in ("union", "tuple", "vtuple") and all(hashable(a) for a in t.args))


# --------------------------------------------------------------------------------------------------------------------
# the independent structural validator (statement: right Python type at every nesting level, arity, membership, predicate)
# --------------------------------------------------------------------------------------------------------------------
def conforms(r, t):
    if t.kind == "atom":
        return bool(t.conf(r))
    if t.kind == "none":
        return r is None
    if t.kind == "union":
        return any(conforms(r, m) for m in t.args)
    if t.kind == "list":
        return type(r) is list and all(conforms(x, t.args[0]) for x in r)
    if t.kind == "dict":
        return isinstance(r, dict) and all(isinstance(k, str) and conforms(x, t.args[0]) for k, x in r.items())
    if t.kind == "set":
        return isinstance(r, (set, frozenset)) and all(conforms(x, t.args[0]) for x in r)
    if t.kind == "tuple":
        return type(r) is tuple and len(r) == len(t.args) and all(conforms(x, a) for x, a in zip(r, t.args))
    if t.kind == "vtuple":
        return type(r) is tuple and all(conforms(x, t.args[0]) for x in r)
    raise AssertionError(t.kind)


def why_not(r, t):
    """None when r conforms to t, else a short symptom '<expected><-<python type found>' naming the first offending position."""
    if t.kind == "atom":
        return None if t.conf(r) else f"{t.name}<-{type(r).__name__}"
    if t.kind == "none":
        return None if r is None else f"None<-{type(r).__name__}"
    if t.kind == "union":
        whys = [(m, why_not(r, m)) for m in t.args]
        if any(w is None for _, w in whys):
            return None
        # name the offence of the member that r resembles: a container member of r's own kind, or a Literal with an equal member
        for m, w in whys:
            if (m.kind not in ("atom", "none") and not w.startswith(m.kind + "<-")) or (m.kind == "atom" and typing.get_origin(m.hint) is Literal and r in typing.get_args(m.hint)):
                return w
        return f"Union<-{type(r).__name__}"
    if t.kind == "dict":
        if not isinstance(r, dict):
            return f"dict<-{type(r).__name__}"
        for k, x in r.items():
            if not isinstance(k, str):
                return f"dictkey<-{type(k).__name__}"
            w = why_not(x, t.args[0])
            if w:
                return w
        return None
    want = {"list": list, "set": (set, frozenset), "tuple": tuple, "vtuple": tuple}[t.kind]
    if not (isinstance(r, want) if t.kind == "set" else type(r) is want):
        return f"{t.kind}<-{type(r).__name__}"
    if t.kind == "tuple":
        if len(r) != len(t.args):
            return f"tuple{len(t.args)}<-arity{len(r)}"
        pairs = zip(r, t.args)
    else:
        pairs = ((x, t.args[0]) for x in r)
    for x, a in pairs:
        w = why_not(x, a)
        if w:
            return w
    return None


_HINT_TY = {}


def ty_of_hint(hint):
    """The grammar node of a typing object (for the run-time contract on adapt_typehints); None outside the grammar."""
    if id(hint) in _HINT_TY:
        return _HINT_TY[id(hint)][1]
    t = None
    for a in ATOMS.values():
        if hint is a.hint:
            t = a
    origin, args = typing.get_origin(hint), typing.get_args(hint)
    subs = [x for x in args if x is not Ellipsis]
    if t is not None:
        pass
    elif hint is NoneType:
        t = T_NONE
    elif origin is Literal:
        t = Ty("atom", str(hint).replace("typing.", "").replace(" ", ""), hint)
        t.conf = lambda r, args=args: any(type(r) is type(m) and r == m for m in args)
    elif origin in (Union, list, dict, set, tuple):
        kids = [ty_of_hint(x) for x in (subs[1:] if origin is dict else subs)]
        if kids and all(k is not None for k in kids):
            if origin is Union:
                t = Ty("union", "Union[" + ",".join(k.name for k in kids) + "]", hint, kids)
            elif origin is list and len(kids) == 1:
                t = Ty("list", f"List[{kids[0].name}]", hint, kids)
            elif origin is dict and len(subs) == 2 and subs[0] is str:
                t = Ty("dict", f"Dict[str,{kids[0].name}]", hint, kids)
            elif origin is set and len(kids) == 1:
                t = Ty("set", f"Set[{kids[0].name}]", hint, kids)
            elif origin is tuple and len(args) == 2 and args[1] is Ellipsis:
                t = Ty("vtuple", f"Tuple[{kids[0].name},...]", hint, kids)
            elif origin is tuple:
                t = Ty("tuple", "Tuple[" + ",".join(k.name for k in kids) + "]", hint, kids)
    _HINT_TY[id(hint)] = (hint, t)  # the hint is kept alive so that its id stays unique
    return t


# --------------------------------------------------------------------------------------------------------------------
# three-valued logic and the acceptance twin
# --------------------------------------------------------------------------------------------------------------------
def or3(xs):
    xs = list(xs)
    return True if any(x is True for x in xs) else None if any(x is None for x in xs) else False


def and3(xs):
    xs = list(xs)
    return False if any(x is False for x in xs) else None if any(x is None for x in xs) else True


NULL_TEXTS = ("null", "Null", "NULL", "~")


def vkey(v):
    if isinstance(v, float):
        return "f:" + repr(v)
    if isinstance(v, (list, tuple, set, frozenset)):
        return type(v).__name__[0] + "[" + ",".join(vkey(x) for x in (sorted(v, key=repr) if isinstance(v, (set, frozenset)) else v)) + "]"
    if isinstance(v, dict):
        return "{" + ",".join(f"{vkey(k)}:{vkey(x)}" for k, x in v.items()) + "}"
    return type(v).__name__[0] + ":" + repr(v)


class World:
    """Per-process state.  Passing checks are counted, failing ones are recorded as raw events; the parent process turns the
    events into violations in the fixed order of the type enumeration (so the result does not depend on the number of workers)."""

    def __init__(self, h):
        self.h = h
        self.parsers = {}
        self.atom_memo = {}
        self.order = {}     # (canonical union name, channel, value key) -> {permutation name: (accepted, value shown)}
        self.stats = {"accepted": 0, "rejected": 0, "spec_known": 0, "spec_unknown": 0, "other_exc": 0}
        self.n_ok = 0
        self.events = []    # (check, symptom, type name, channel, value key, what, case)
        self.in_oracle = False
        self.contract_evals = 0
        self.distinct = set()
        self.samples = []

    def ok(self):
        self.n_ok += 1

    def parser(self, t):
        """The parser for `--k: T`, or None when the hint cannot even be declared (reported once)."""
        if t.name not in self.parsers:
            p = ArgumentParser(exit_on_error=False)
            res = outcome(p.add_argument, "--k", type=t.hint)
            self.parsers[t.name] = p if res[0] == "ok" else None
            if t.kind != "atom":
                # declarable exactly when its members are (statement: a Union does not depend on the order of its members)
                if res[0] == "ok":
                    self.ok()
                else:
                    self.report("declare", str(res[1]), t, "", "", f"add_argument('--k', type={t.name}) failed: {res!r}"[:300],
                                {"parser": f"ArgumentParser().add_argument('--k', type={t.name})"})
        return self.parsers[t.name]

    # -- acceptance by an atom: asked from the atom's own parser (relational oracle), memoised
    def atom_acc(self, v, t):
        if v is None:
            return False  # None is not a value of an atom (parse_object would read it as "not given")
        key = (t.name, vkey(v))
        if key not in self.atom_memo:
            self.in_oracle = True  # the oracle's own calls are not checked a second time by the adapt_typehints contract
            try:
                res = outcome(self.parser(t).parse_object, {"k": copy.deepcopy(v)})
            finally:
                self.in_oracle = False
            self.atom_memo[key] = res[0] == "ok"
        return self.atom_memo[key]

    def acc(self, v, t, as_text=False):
        """Acceptance of the python value v according to the statement; None where the statement is silent (a value of another
        container kind).  as_text: v is a command-line text read as a plain string (its reading as a container is judged separately);
        a plain string is not a container."""
        if t.kind == "atom":
            return self.atom_acc(v, t)
        if t.kind == "none":
            return v is None or (isinstance(v, str) and v in NULL_TEXTS)
        if t.kind == "union":
            return or3(self.acc(v, m, as_text) for m in t.args)
        if v is None:
            return False  # a container type without None among its members
        if as_text:
            return False
        if t.kind == "list":
            return and3(self.acc(x, t.args[0]) for x in v) if type(v) is list else None
        if t.kind == "dict":
            return and3(self.acc(x, t.args[0]) for x in v.values()) if type(v) is dict and all(isinstance(k, str) for k in v) else None
        if t.kind in ("set", "vtuple"):
            return and3(self.acc(x, t.args[0]) for x in v) if type(v) in (list, tuple, set) else None
        if t.kind == "tuple":
            if type(v) not in (list, tuple):
                return None
            return False if len(v) != len(t.args) else and3(self.acc(x, a) for x, a in zip(v, t.args))
        raise AssertionError(t.kind)

    def acc_text(self, text, denotes, t):
        """A command-line / string value is accepted iff the container or null it spells is, or it is itself as a plain string."""
        alts = [self.acc(text, t, as_text=True)]
        if denotes is not _NOTHING:
            alts.append(self.acc(denotes, t))
        return or3(alts)

    def report(self, check, symptom, t, chan, v, what, case):
        self.events.append((check, symptom, t.name, chan, "" if check == "declare" else short(v), what[:400], case))


# -- violation bookkeeping (parent process).  One defect fails for unboundedly many (type, value) pairs and the evidence file keeps 200
#    entries.  Every failing case carries a *symptom* computed from the nature of the mismatch (never from the identity of the input);
#    the first PER_SYMPTOM cases of a symptom are listed under their own key, the rest under one '+more:<symptom>' key; totals go to the notes.
PER_SYMPTOM = int(os.environ.get("VERIF_B02_PER_SYMPTOM", "4"))  # (the knob is for debugging only)


def emit(h, slots, check, symptom, tname, chan, vshort, what, case):
    slot = (check, symptom)
    slots[slot] = slots.get(slot, 0) + 1
    prefix = "adapt_typehints.post.conforms" if check == "adapt" else f"c02:{check}"
    if slots[slot] <= PER_SYMPTOM:
        key = ":".join(x for x in (prefix, tname, chan, vshort) if x != "")[:148]
    else:
        key = f"{prefix}:+more:{symptom}"[:148]
        what = f"more than {PER_SYMPTOM} '{check}' violations with symptom '{symptom}' (totals in the notes); first one not listed: {tname} {chan} {vshort}: {what}"
    h.check(False, key, what[:500], case)


_NOTHING = object()


def has_str_union(t):
    """Some Union inside t has a str member (the string fall-back of the Union branch can be involved)."""
    return (t.kind == "union" and T_STR in t.args) or any(has_str_union(a) for a in t.args)


def canonical(t):
    if t.kind in ("atom", "none"):
        return t.name
    if t.kind == "union":
        return "Union{" + "|".join(sorted(canonical(m) for m in t.args)) + "}"
    return t.kind + "<" + ",".join(canonical(a) for a in t.args) + ">"


def short(v):
    s = v if isinstance(v, str) else vkey(v)
    return repr(s)[:70] if isinstance(v, str) else s[:70]


# --------------------------------------------------------------------------------------------------------------------
# candidate values
# --------------------------------------------------------------------------------------------------------------------
LOOKALIKE = ["1e3", "._", ".5", "1_000", "010", "0x10", "1:30", "true", "True", "yes", "no", "on", "null", "~", "", " ", "-", "=", "nan", ".inf",
             "2020-01-01", "{a: 1}", "[1, 2]", "a: b", "*x", "&a"]
SCALAR_POOL = [0, 1, 2, 3, -7, 10**20, True, False, 2.5, 1.0, -0.0, 0.5, float("inf"), 1e300,
               "abc", "a", "b", "c", "x", "RED", "red", "BLUE", "Color.RED", "1", "2", "3", "0", "-1", "1.0", "1.5", "0.5", "+1", " 1", "1 ", "'1'"] + LOOKALIKE
# what may stand at a position of a given atom inside a container: accepted and rejected ones, of every wrong kind
POSITION_POOL = [None, True, 0, 1, 3, -7, 2.5, 1.0, "abc", "a", "RED", "1", "1e3", "null", "", "true", "[1, 2]", [1], {"a": 1}, "x", 0.5]


def good(t, n=2):
    """Up to n conforming values (lists stand for tuples and sets so that they can be rendered as json)."""
    if t.kind == "atom":
        return list(t.good[:n])
    if t.kind == "none":
        return [None]
    if t.kind == "union":
        out = []
        for m in t.args:
            out += good(m, 1)
        return out[: max(n, len(t.args))]
    if t.kind in ("list", "set", "vtuple"):
        g = good(t.args[0], 2)
        return [[g[0]], list(g[:2]), []][:n]
    if t.kind == "dict":
        g = good(t.args[0], 2)
        return [{"a": g[0]}, {"a": g[0], "b": g[-1]}, {}][:n]
    if t.kind == "tuple":
        gs = [good(a, 2) for a in t.args]
        return [[g[0] for g in gs], [g[-1] for g in gs]][:n]
    raise AssertionError(t.kind)


def position_candidates(t, limit=12):
    """Values to put at a position of type t: conforming ones and ones made wrong (kind, arity, membership, bool for int, predicate)."""
    if t.kind == "atom":
        out = list(t.good[:2]) + POSITION_POOL
    elif t.kind == "none":
        out = [None, "null", 0, ""]
    elif t.kind == "union":
        out = []
        for m in t.args:
            out += position_candidates(m, 6)
        out += [None, 2.5, "abc", [1], {"a": 1}]
    else:
        out = top_values(t, inner_limit=3) + [None, 5, "abc", "[1, 2]"]
    res, seen = [], set()
    for v in out:
        if isinstance(v, enum.Enum):
            continue  # positions are rendered as json; enum members are tried at the top level
        k = vkey(v)
        if k not in seen:
            seen.add(k)
            res.append(v)
    # keep a spread: the first (conforming) ones and a deterministic sample of the rest
    if len(res) > limit:
        if limit <= 3:
            return res[:limit]
        step = (len(res) - 3) / (limit - 3)
        res = res[:3] + [res[3 + int(i * step)] for i in range(limit - 3)]
    return res


def top_values(t, inner_limit=12):
    """Candidate python values for an argument of container/union type t (not yet the scalars of other kinds)."""
    vals = []
    if t.kind == "union":
        for m in t.args:
            vals += top_values(m, inner_limit) if m.kind not in ("atom", "none") else position_candidates(m, inner_limit)
        return vals
    if t.kind in ("atom", "none"):
        return position_candidates(t, inner_limit)
    g = good(t, 3)
    vals += g
    if t.kind in ("list", "set", "vtuple"):
        e = t.args[0]
        ge = good(e, 2)
        for c in position_candidates(e, inner_limit):
            vals.append([ge[0], c])
            if inner_limit > 6:
                vals.append([c])
        vals.append([ge[0], ge[-1], ge[0]])
        vals += [{"a": ge[0]}, {}]
    elif t.kind == "dict":
        e = t.args[0]
        ge = good(e, 2)
        for c in position_candidates(e, inner_limit):
            vals.append({"a": ge[0], "b": c})
        vals += [[ge[0]], [], {"1": ge[0]}, {1: ge[0]}, {"a.b": ge[0]}]
    elif t.kind == "tuple":
        gs = [good(a, 2)[0] for a in t.args]
        for i, a in enumerate(t.args):
            for c in position_candidates(a, max(4, inner_limit - 2 * len(t.args))):
                vals.append(gs[:i] + [c] + gs[i + 1:])
        vals += [gs[:-1], gs + [gs[-1]], gs + [None], [], {"a": gs[0]}]
    return vals


def jsonable(v):
    try:
        s = json.dumps(v, allow_nan=False)
    except (TypeError, ValueError):
        return None
    # json object keys are always strings: a dict with a non-string key cannot be spelled
    def has_bad_key(x):
        if isinstance(x, dict):
            return any(not isinstance(k, str) for k in x) or any(has_bad_key(y) for y in x.values())
        if isinstance(x, (list, tuple)):
            return any(has_bad_key(y) for y in x)
        return False
    return None if has_bad_key(v) else s


def denotation(text):
    """The container or null that a look-alike text spells according to PyYAML (not jsonargparse's loader); _NOTHING for scalars."""
    if text.strip() in ("", "-"):
        return _NOTHING  # '-' alone is the conventional "standard input" word, not a YAML block list
    try:
        d = yaml.safe_load(text)
    except yaml.YAMLError:
        return _NOTHING
    return d if d is None or isinstance(d, (list, dict)) else _NOTHING


def native(v, t):
    """The python-native spelling of a conforming list-carried value (tuples, sets, enum members) for the object channel."""
    if t.kind == "tuple" and type(v) is list and len(v) == len(t.args):
        return tuple(native(x, a) for x, a in zip(v, t.args))
    if t.kind == "vtuple" and type(v) is list:
        return tuple(native(x, t.args[0]) for x in v)
    if t.kind == "set" and type(v) is list and hashable(t.args[0]):
        try:
            return set(native(x, t.args[0]) for x in v)
        except TypeError:
            return v
    if t.kind == "list" and type(v) is list:
        return [native(x, t.args[0]) for x in v]
    if t.kind == "dict" and type(v) is dict:
        return {k: native(x, t.args[0]) for k, x in v.items()}
    return v


# --------------------------------------------------------------------------------------------------------------------
# the type enumeration
# --------------------------------------------------------------------------------------------------------------------
def enumerate_types(h):
    A = ALL_ATOMS if h.thorough else QUICK_ATOMS
    types, seen = [], set()

    def add(t):
        if t.name not in seen and t.depth <= 4:
            seen.add(t.name)
            types.append(t)
        return t

    for a in ALL_ATOMS:
        add(a)
    d1 = []
    for a in A:
        d1 += [add(t_opt(a)), add(t_opt(a, True)), add(t_list(a)), add(t_dict(a)), add(t_set(a)), add(t_vtuple(a)), add(t_tuple(a))]
    for x, y in [(T_INT, T_STR), (T_STR, T_INT), (T_BOOL, T_FLOAT), (T_LITS, T_ENUM), (T_POS, T_INT), (T_FLOAT, T_FLOAT), (T_STR, T_STR), (T_INT, T_BOOL)]:
        d1.append(add(t_tuple(x, y)))
    for tr in [(T_INT, T_STR, T_BOOL), (T_FLOAT, T_LITI, T_ENUM), (T_STR, T_STR, T_STR)]:
        d1.append(add(t_tuple(*tr)))
    for x, y in itertools.combinations(A, 2):
        d1 += [add(t_union(x, y)), add(t_union(y, x))]
    triples = [(T_STR, T_INT, T_FLOAT), (T_INT, T_BOOL, T_NONE), (T_STR, T_ENUM, T_NONE), (T_LITS, T_LITI, T_FLOAT), (T_POS, T_INT, T_STR), (T_BOOL, T_STR, T_FLOAT)]
    if h.thorough:
        triples += [tr for tr in itertools.combinations(A, 3)][::3]
    for tr in triples:
        for perm in itertools.permutations(tr):
            d1.append(add(t_union(*perm)))
    # depth 2
    inner = [t_list(T_INT), t_list(T_STR), t_dict(T_INT), t_tuple(T_INT, T_STR), t_vtuple(T_INT), t_set(T_INT), t_opt(T_INT), t_union(T_INT, T_STR),
             t_union(T_STR, T_INT), t_union(T_BOOL, T_FLOAT), t_union(T_FLOAT, T_BOOL), t_opt(T_LITS), t_union(T_ENUM, T_INT), t_opt(T_STR, True),
             t_union(T_STR, T_INT, T_NONE), t_dict(T_STR)]
    if h.thorough:
        inner = d1
    d2 = []
    for x in inner:
        d2 += [add(t_opt(x)), add(t_opt(x, True)), add(t_list(x)), add(t_dict(x)), add(t_tuple(x, T_INT)), add(t_vtuple(x))]
        if hashable(x):
            d2.append(add(t_set(x)))
    union_sets = [(t_list(T_INT), T_STR), (t_list(T_INT), T_INT), (t_list(T_STR), T_STR), (t_dict(T_INT), t_list(T_INT)), (t_tuple(T_INT, T_STR), T_INT),
                  (t_list(T_INT), t_list(T_STR)), (t_set(T_INT), T_STR), (t_dict(T_STR), T_STR), (t_list(T_INT), t_dict(T_INT), T_NONE),
                  (t_list(T_INT), T_NONE, T_STR), (t_list(T_BOOL), T_BOOL, T_INT), (t_vtuple(T_INT), t_list(T_STR))]
    for us in union_sets:
        for perm in itertools.permutations(us):
            d2.append(add(t_union(*perm)))
    # depth 3 and 4
    deep = [t_list(t_dict(t_opt(T_INT))), t_dict(t_list(t_union(T_INT, T_STR))), t_dict(t_list(t_union(T_STR, T_INT))), t_opt(t_list(t_tuple(T_INT, T_STR))),
            t_list(t_list(t_list(T_INT))), t_tuple(t_list(t_opt(T_INT)), t_dict(T_BOOL)), t_union(t_list(t_dict(T_INT)), t_dict(t_list(T_INT))),
            t_union(t_dict(t_list(T_INT)), t_list(t_dict(T_INT))), t_list(t_union(t_list(T_INT), T_STR)), t_list(t_union(T_STR, t_list(T_INT))),
            t_dict(t_union(t_dict(T_INT), T_INT, T_NONE)), t_set(t_tuple(T_INT, t_opt(T_STR))), t_vtuple(t_vtuple(t_union(T_BOOL, T_INT))),
            t_list(t_dict(t_list(t_opt(T_INT)))), t_opt(t_dict(t_vtuple(t_list(T_INT)))), t_dict(t_dict(t_dict(t_union(T_STR, T_INT)))),
            t_list(t_tuple(t_dict(t_union(T_INT, T_STR)), t_list(T_ENUM))), t_union(t_list(t_list(t_opt(T_POS))), t_dict(t_list(T_LITS)), T_NONE),
            t_union(T_NONE, t_dict(t_list(T_LITS)), t_list(t_list(t_opt(T_POS))))]
    for t in deep:
        add(t)
    if h.thorough:
        # seeded random types up to depth 4
        pool = list(d1) + list(d2)
        for _ in range(400):
            x = h.rng.choice(pool)
            c = h.rng.choice(["opt", "optf", "list", "dict", "tuple2", "vtuple", "union", "set"])
            try:
                if c == "opt":
                    t = t_opt(x)
                elif c == "optf":
                    t = t_opt(x, True)
                elif c == "list":
                    t = t_list(x)
                elif c == "dict":
                    t = t_dict(x)
                elif c == "tuple2":
                    t = t_tuple(x, h.rng.choice(pool))
                elif c == "vtuple":
                    t = t_vtuple(x)
                elif c == "set":
                    t = t_set(x) if hashable(x) else t_list(x)
                else:
                    t = t_union(x, h.rng.choice(pool))
            except Exception:  # noqa
                continue
            if t.depth <= 4 and t.name not in seen and len(t.name) < 110:
                add(t)
                pool.append(t)
    return types


# --------------------------------------------------------------------------------------------------------------------
NAME = "b02_type_conformance"
RULE = ("every hint T of the grammar (atoms; Optional in both orders, every permutation of every Union, List, Dict[str,.], Tuple 1-3 and ellipsis, Set; "
        "quick: all of depth 1 over 8 atoms, 16 inner types x 7 constructors and 12 Unions with container members in every permutation at depth 2, 19 types of "
        "depth 3-4) x candidate values (conforming; every position replaced by values of every wrong kind, bool for int, unknown member, predicate violation; "
        "arity +-1; other container kind; 26 look-alike strings) x {parse_object, argv text}; non-trivial = distinct (T, channel, value)")
WORKERS = 6


def install_contract(w):
    """Run-time contract on the real adapt_typehints (twin of the P-tier clause post.conforms): under the precondition (hint in the
    grammar, not serialising / instantiating / appending) a normal return conforms to the hint."""
    orig = jth.adapt_typehints

    def wrapper(val, typehint, *args, **kw):
        result = orig(val, typehint, *args, **kw)
        if w.in_oracle or args or kw.get("serialize") or kw.get("instantiate_classes") or kw.get("append"):
            return result
        t = ty_of_hint(typehint)
        if t is None:
            return result
        w.contract_evals += 1
        why = why_not(result, t)
        if why is None:
            w.ok()
        else:
            w.events.append(("adapt", why, t.name, "", short(val), f"adapt_typehints({val!r}, {t.name}) returned {result!r}, which does not conform ({why})"[:400],
                             {"call": f"jsonargparse._typehints.adapt_typehints({val!r}, {t.name})", "returned": repr(result)[:200]}))
        return result

    wrapper.__wrapped__ = orig
    jth.adapt_typehints = wrapper
    return lambda: setattr(jth, "adapt_typehints", orig)


def work(job):
    tier, seed, indices = job
    h = Harness(NAME, RULE, argv=["--tier", tier, "--seed", str(seed)])
    w = World(h)
    cwd = os.getcwd()
    restore = install_contract(w)
    out = []
    try:
        with tempfile.TemporaryDirectory() as tmp:
            os.chdir(tmp)  # an empty directory: no text can name an existing file
            types = enumerate_types(h)
            for i in indices:
                w.events, w.n_ok, w.distinct, w.samples, w.order = [], 0, set(), [], {}
                w.stats = dict.fromkeys(w.stats, 0)
                before = w.contract_evals
                run_type(h, w, types[i])
                out.append((i, w.n_ok, w.events, w.distinct, w.samples, w.order, w.stats, w.contract_evals - before))
    finally:
        os.chdir(cwd)
        restore()
    return out


def container_union_part(h):
    """order, for Unions whose members are containers with *different* element types: a member that rejects a value after converting some of its
    elements must not change what the next member sees (acceptance and value are the same for every order of the members)."""
    import itertools
    from typing import Dict, List, Set, Tuple, Union

    from jsonargparse import ArgumentParser

    cases = [
        ((List[float], Tuple[int, str]), [[1, "a"], [1, 2], ["a", 1], [1.5, "a"]]),
        ((List[float], List[Union[int, str]]), [[1, "a"], [1, 2.5], [1, 2]]),
        ((Dict[str, float], Dict[str, Union[int, str]]), [{"a": 1, "b": "x"}, {"a": 1, "b": 2.5}, {"a": 1}]),
        ((List[List[float]], List[Tuple[int, str]]), [[[1, "a"]], [[1, 2]]]),
        ((Set[float], Tuple[int, str], List[str]), [[1, "a"], ["a", "b"], [1, 2]]),
        ((Dict[str, List[float]], Dict[str, Tuple[int, str]]), [{"k": [1, "a"]}, {"k": [1, 2]}]),
    ]
    for members, values in cases:
        name = "|".join(sorted(str(m).replace("typing.", "") for m in members))
        for v in values:
            seen = {}
            for perm in itertools.permutations(members):
                hint = Union._getitem(Union, tuple(perm)) if hasattr(Union, "_getitem") else Union[perm]
                try:
                    with quiet():
                        p = ArgumentParser(exit_on_error=False)
                        p.add_argument("--k", type=hint)
                        r = p.parse_object({"k": json.loads(json.dumps(v))}).k
                    out = "accepted"
                except BaseException:  # noqa
                    out = "rejected"
                seen[",".join(str(m).replace("typing.", "") for m in perm)] = out
            h.check(len(set(seen.values())) == 1, f"c02:order:container-members:{name}<-{json.dumps(v)}", f"acceptance depends on the order of the Union members: {seen}", {"members": name, "value": v, "by order": seen})
            h.nontrivial(("container-union", name, json.dumps(v)))


def main():
    if os.environ.get("PYTHONHASHSEED") != "0":
        # python sets of strings / enum members are among the candidate values; the order in which the code under test meets their
        # elements (and so the number of contract evaluations before a refusal) follows the hash seed: pin it (rule 4: deterministic)
        os.execve(sys.executable, [sys.executable] + sys.argv, dict(os.environ, PYTHONHASHSEED="0"))
    h = Harness(NAME, RULE)
    types = enumerate_types(h)
    bad_hints = [t.name for t in types if not hint_matches(t)]
    h.check(not bad_hints, "c02:harness:hint-order", f"typing object does not have the intended member order: {bad_hints[:5]}", None)
    jobs = [(h.tier, h.seed, list(range(k, len(types), WORKERS))) for k in range(WORKERS)]
    import multiprocessing

    # one fresh forked process per job (a process that happened to serve two jobs would carry caches of the code under test over)
    with multiprocessing.get_context("fork").Pool(WORKERS, maxtasksperchild=1) as pool:
        results = pool.map(work, jobs, chunksize=1)
    per_type = sorted((r for chunk in results for r in chunk), key=lambda r: r[0])
    slots, order, stats, contract = {}, {}, {}, 0
    for i, n_ok, events, distinct, samples, order_i, stats_i, contract_i in per_type:
        h.evaluations += n_ok
        h.distinct |= distinct
        contract += contract_i
        for smp in samples:
            h.sample(smp)
        for k, v in stats_i.items():
            stats[k] = stats.get(k, 0) + v
        for k, v in order_i.items():
            order.setdefault(k, {}).update(v)
        for ev in events:
            emit(h, slots, *ev)
    h.contract_evals["adapt_typehints.post.conforms"] = contract
    check_union_order(h, slots, order)
    h.note(f"types {len(types)} (depth histogram {[sum(1 for t in types if t.depth == d) for d in range(5)]}); {stats}")
    h.note("violating cases per (check, symptom): " + "; ".join(f"{k[0]}/{k[1]}={n}" for k, n in sorted(slots.items()))[:3000])
    h.check(stats["accepted"] > 1000 and stats["rejected"] > 1000 and stats["spec_known"] > 1000, "c02:harness:vacuous", f"too few accepted/rejected/specified cases: {stats}", None)
    container_union_part(h)
    sys.exit(h.finish(exhaustive=True, bound=f"{len(types)} type hints up to nesting depth 4 ({'thorough: all depth-2 constructions over depth 1, 400 seeded random deeper types' if h.thorough else 'quick selection, see rule'}); "
                      "per hint: conforming values, one position replaced by each of <= 12 candidates of the position's type, arity +-1, other container kinds, "
                      f"{len(SCALAR_POOL)} scalars incl. {len(LOOKALIKE)} look-alike strings; channels parse_object and argv"))


def run_type(h, w, t):
    p = w.parser(t)
    if p is None:
        return
    cases = []  # (channel, how to call, value shown, spec)
    seen = set()

    def add_obj(v):
        k = ("obj", vkey(v))
        if v is None or k in seen:
            return
        seen.add(k)
        if isinstance(v, str):
            spec = w.acc_text(v, denotation(v), t)
        else:
            spec = w.acc(v, t)
        cases.append(("obj", v, spec))

    def add_argv(text, denotes):
        k = ("argv", text)
        if k in seen or "\n" in text:
            return
        seen.add(k)
        cases.append(("argv", text, w.acc_text(text, denotes, t)))

    if t.kind == "atom":
        values = list(t.good) + SCALAR_POOL + [[1], {"a": 1}, [], {}]
    else:
        values = top_values(t) + SCALAR_POOL[:0] + [5, True, 2.5, "abc", "a", "1", "RED"] + LOOKALIKE
    for v in values:
        add_obj(v)
        nv = native(v, t)
        if vkey(nv) != vkey(v):
            add_obj(nv)
        if isinstance(v, str):
            add_argv(v, denotation(v))
        else:
            s = jsonable(v)
            if s is not None:
                loaded = json.loads(s)
                add_argv(s, loaded if loaded is None or isinstance(loaded, (list, dict)) else _NOTHING)
    if t.kind == "dict":
        g0 = jsonable(good(t.args[0], 1)[0])
        if g0 is not None:
            add_argv("{1: " + g0 + "}", {1: json.loads(g0)})  # a YAML flow mapping with a non-string key
    for chan, v, spec in cases:
        if chan == "obj":
            res = outcome(p.parse_object, {"k": copy.deepcopy(v)})
        else:
            res = outcome(p.parse_args, ["--k=" + v])
        accepted = res[0] == "ok"
        w.stats["accepted" if accepted else "rejected"] += 1
        if not accepted and not (res[0] == "exc" and res[1] == "ArgumentError"):
            w.stats["other_exc"] += 1  # C03's business; for C02 it is a refusal
        case = {"parser": f"ArgumentParser(exit_on_error=False).add_argument('--k', type={t.name})", "channel": chan, "value": repr(v)[:200],
                "outcome": repr(res if not accepted else res[1].k)[:300]}
        w.distinct.add((t.name, chan, vkey(v)))
        # conform
        if accepted:
            r = res[1].k
            why = None if r is None else why_not(r, t)
            if why is None:
                w.ok()
            else:
                w.report("conform", why, t, chan, v, f"accepted, but the result {r!r} does not conform to {t.name} ({why})", case)
        # accept: the compositional twin (atoms at the top are their own definition; their conforming values are checked below)
        if t.kind != "atom":
            if spec is None:
                w.stats["spec_unknown"] += 1
            else:
                w.stats["spec_known"] += 1
                if accepted == spec:
                    w.ok()
                else:
                    symptom = ("accepted" if accepted else "rejected") + (":str-union" if has_str_union(t) else ":plain") + (":text" if isinstance(v, str) else ":value")
                    w.report("accept", symptom, t, chan, v, f"accepted={accepted}, but element-wise / member-wise acceptance says {spec}", case)
        if t.kind == "union":
            w.order.setdefault((canonical(t), chan, vkey(v)), {})[t.name] = (accepted, repr(v)[:80])
    if t.kind == "atom":
        for v in t.good:
            res = outcome(p.parse_object, {"k": v})
            if res[0] == "ok" and conforms(res[1].k, t):
                w.ok()
            else:
                w.report("atom", t.name, t, "obj", v, f"a conforming value was rejected or changed kind: {res!r}"[:300], {"type": t.name, "value": repr(v)})
        for s in t.texts:
            for chan, res in (("obj", outcome(p.parse_object, {"k": s})), ("argv", outcome(p.parse_args, ["--k=" + s]))):
                ok = res[0] == "ok" and conforms(res[1].k, t) and (t is not T_STR or res[1].k == s)
                if ok:
                    w.ok()
                else:
                    w.report("atom", t.name, t, chan, s, f"the canonical text of a conforming value was rejected: {res!r}"[:300], {"type": t.name, "text": s})
    if t.depth == 2 and cases and t.kind in ("union", "tuple"):
        w.samples.append({"type": t.name, "cases": len(cases), "example": [repr(c[1])[:60] for c in cases[:4]]})


def check_union_order(h, slots, order):
    for (canon, chan, vk), per in sorted(order.items(), key=lambda kv: (len(kv[0][0]), kv[0])):  # the simplest Unions first
        if len(per) < 2:
            continue
        outs = {name: a for name, (a, _) in per.items()}
        if len(set(outs.values())) == 1:
            h.check(True, "c02:order")
            continue
        acc = sorted(n for n, a in outs.items() if a)
        rej = sorted(n for n, a in outs.items() if not a)
        shown = next(iter(per.values()))[1]
        symptom = ("str-member" if "|str" in canon or "{str" in canon else "no-str") + (":text" if vk.startswith("s:") or chan == "argv" else ":value")
        emit(h, slots, "order", symptom, canon, chan, vk[:70], f"value {shown} is accepted by {acc} but rejected by {rej}",
             {"union": canon, "channel": chan, "value": shown, "accepted_by": acc, "rejected_by": rej})


if __name__ == "__main__":
    main()
