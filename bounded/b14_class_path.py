"""C14 bounded stand-in: a class_path is checked against the declared type and built from its config.

End-to-end contract on ArgumentParser.parse_args / parse_object + instantiate_classes, evaluated over a hand-written
class family (bounded/gen_j.py: base, subclasses adding / overriding / requiring parameters, free **kwargs, unrelated
class, abstract bases, factories, nested class-typed and List/Dict/Optional/Union-of-class parameters).

Part A  (one configuration, every notation)
    model value v at a declared type T, written in up to 10 notations (object, JSON option, config string, bare class
    names, dotted sub-options with and without `.init_args.`, init_args without class_path after the class was named by
    an earlier option / by the default, bare mapping of arguments).
      v invalid (wrong class, non-class import, unknown / ill-typed / missing init_args, at any depth)
            -> every notation that can express it fails to parse;
      v valid -> every notation parses to the *same* configuration, which equals the reference configuration computed
                 from the model (explicit class paths, defaults filled in); instantiate_classes (when no abstract class
                 is involved) returns objects whose exact type is the named class, each constructed exactly once, with
                 effective arguments == configured init_args + dict_kwargs, nested objects built before their owner and
                 passed as objects, and no construction besides the configured ones.
Part B  (class changes between sources: default, environment, config strings, options)
    after a sequence of steps the accepted configuration names the last class, its init_args are valid for that very
    class, arguments given with / after the last class change have their values, no value comes from nowhere,
    dict_kwargs are those configured for the final class, and instantiate_classes builds exactly that.

Part D  (several components in one parser: top-level class argument, class argument below a dotted key, class group
         with a class-typed parameter, class argument inside a subcommand): same contract per component, no extra constructions.

Oracle: the MODEL tables and `conforms` / `valid` / `expected` in gen_j.py (written from the class definitions; Python's
own issubclass on the family), and the constructor log written by the classes themselves.
Not asserted (reported in notes): dict_kwargs handed explicitly to a class without **kwargs (accepted by parse, the
constructor raises TypeError); an import path of an *instance* of the declared class (accepted by design, returns it).
"""
import json
import os
import sys
from typing import Dict, List, Optional, Union

from bounded import gen_j as G
from bounded.common import Harness, outcome
from bounded.gen_j import Bad, P

from jsonargparse import ArgumentParser

DECL = {
    "Base": (G.Base, P("cls", of=("Base",))),
    "OptBase": (Optional[G.Base], P("cls", of=("Base",), optional=True)),
    "UnionBU": (Union[G.Base, G.Unrelated], P("cls", of=("Base", "Unrelated"))),
    "UnionUB": (Union[G.Unrelated, G.Base], P("cls", of=("Unrelated", "Base"))),
    "AbsBase": (G.AbsBase, P("cls", of=("AbsBase",))),
    "Unrelated": (G.Unrelated, P("cls", of=("Unrelated",))),
    "ListBase": (List[G.Base], P("list", of=("Base",))),
    "DictBase": (Dict[str, G.Base], P("dict", of=("Base",))),
    "Holder": (G.Holder, P("cls", of=("Holder",))),
    "Deep": (G.Deep, P("cls", of=("Deep",))),
    "Multi": (G.Multi, P("cls", of=("Multi",))),
}

GOOD = {"int": [5, -3], "float": [2, 0.25], "str": ["hello", "12"], "bool": [True]}
BAD = {
    "int": [Bad("str", "zz", "zz"), Bad("float", 1.5, "1.5"), Bad("bool", True, "true"), Bad("null", None, "null"), Bad("list", [1], "[1]")],
    "float": [Bad("str", "q", "q"), Bad("null", None, "null")],
    "str": [Bad("int", 5, None), Bad("dict", {"k": 1}, None)],
    "bool": [Bad("str", "maybe", "maybe"), Bad("int", 2, "2"), Bad("null", None, "null")],
}


def K(clause, where):
    """canonical violation key: property, violated clause, then the failing input"""
    return f"c14:{clause}:{where}"


# null for a non-optional scalar parameter is a defect class of its own (None is never type-checked): few, tightly keyed cases
NULLS = {("Base", "a"), ("SubAdd", "b")}
NULLS_THOROUGH = {("Concrete", "k"), ("Unrelated", "u"), ("SubOver", "c")}


def S(cls, kw=None, **args):
    s = {"cls": cls}
    if args:
        s["args"] = args
    if kw:
        s["kw"] = kw
    return s


def make_parser(decl, default=None, env=False):
    kw = {"default_env": True, "env_prefix": "J14"} if env else {}
    parser = ArgumentParser(exit_on_error=False, **kw)
    parser.add_argument("--cfg", action="config")
    if default is None:
        parser.add_argument("--x", type=DECL[decl][0])
    else:
        parser.add_argument("--x", type=DECL[decl][0], default=default)
    return parser


def summary(decl, default=None, env=False):
    return (f"ArgumentParser(exit_on_error=False{', default_env=True, env_prefix=J14' if env else ''}); add_argument('--cfg', action='config'); "
            f"add_argument('--x', type={decl}{', default=' + json.dumps(default) if default is not None else ''}); classes from bounded.gen_j")


# ====================================================================== Part A: enumeration of model values
def flat_specs(thorough):
    """(name, spec) for one class position: every class / factory of the family with argument sets, and junk imports."""
    out = []
    for name, model in G.MODEL.items():
        if name in ("Holder", "HolderSub", "Multi", "Deep"):
            continue
        params = model["params"]
        req = {k: 3 for k, pd in params.items() if pd["default"] == G.REQUIRED}
        out.append(S(name, **req))
        for k, pd in params.items():
            for v in GOOD[pd["kind"]] if (thorough or name in ("SubAdd", "SubOver", "SubReq")) else GOOD[pd["kind"]][:1]:
                out.append(S(name, **{**req, k: v}))
            bads = [b for b in BAD[pd["kind"]] if b.tag != "null" or (name, k) in NULLS or (thorough and (name, k) in NULLS_THOROUGH)]
            for v in bads if (thorough or name in ("Base", "SubOver", "SubAdd")) else bads[:1]:
                out.append(S(name, **{**req, k: v}))
        if len(params) > 1:
            out.append(S(name, **{k: GOOD[pd["kind"]][0] for k, pd in params.items()}))
        out.append(S(name, **{**req, "q": 1}))  # unknown parameter
        foreign = {"Base": "b", "SubAdd": "c", "SubOver": "s", "SubReq": "s", "SubKw": "s", "Unrelated": "s", "Concrete": "a"}.get(name)
        if foreign:
            out.append(S(name, **{**req, foreign: GOOD["str" if foreign in "s" else "float" if foreign == "b" else "bool"][0]}))  # parameter of a sibling
        if req:
            out.append(S(name))  # required parameter missing
        if name in ("SubKw", "Base", "SubAdd"):
            out.append(S(name, kw={"q": 4}))
            out.append(S(name, kw={"q": 4, "w": "hello"}, a=5))
        if name == "SubKw" and thorough:
            out.append(S(name, kw={"a": 4}))
    for name in G.IMPORTS:
        if name in G.MODEL or name in G.CLASSES:
            continue
        out.append(S(name))
        if name in ("make_unrelated", "NOT_A_CLASS", "no_attr", "bare:Unrelated", "bare:Holder"):
            out.append(S(name, a=5))
    for name in ("Holder", "Multi"):
        out.append(S(name))  # family classes that never conform at these positions (and miss a required child)
    return out


def partA_cases(thorough):
    cases = []

    def add(decl, value, notations=None):
        if notations is None and not thorough and decl in ("Holder", "Deep", "Multi"):
            notations = ("obj", "json", "short", "dotted", "dotted-ia", "ia-default")  # quick tier: 6 of the 11 notations on nested families
        cases.append({"part": "A", "decl": decl, "value": value, "id": G.short_key(f"A:{decl}:{G.label(value)}"), "notations": notations})

    flat = flat_specs(thorough)
    for decl in ("Base", "OptBase", "UnionBU", "UnionUB", "AbsBase", "Unrelated"):
        if decl in ("OptBase", "UnionUB", "Unrelated") and not thorough:
            sel = [s for s in flat if not s.get("args") or s["cls"] in ("SubOver", "Unrelated", "make_base")]
        else:
            sel = flat
        for spec in sel:
            if spec["cls"].startswith("bare:") and G.conforms(spec["cls"][5:], DECL[decl][1]["of"]):
                continue  # here the bare name is a legitimate short form (covered by the `short` notation) or names a conforming abstract class (not asserted)
            add(decl, spec)
        if DECL[decl][1]["optional"]:
            add(decl, None)
    add("Base", Bad("int", 5, "5"))
    add("Base", Bad("list", ["Base"], '["Base"]'))
    add("Base", Bad("extra-key", {"class_path": G.path("Base"), "init_args": {"a": 5}, "extra": 1}, None))
    add("Base", Bad("ns-typo", {"class_path": G.path("Base"), "init_arg": {"a": 5}}, None))

    # containers of classes at top level
    items = [S("Base"), S("SubAdd", b=2), S("SubOver", a="w"), S("SubReq", r=1), S("SubKw", kw={"q": 4}), S("make_base", a=4)]
    wrong = [S("Unrelated"), S("Base", a=Bad("str", "zz", "zz")), S("Base", q=1), S("NOT_A_CLASS"), S("SubReq"), S("no_attr")]
    lists = [[], [items[0]], [items[1], items[2]], [items[0], items[0]], items[:5], [items[5], items[3]]]
    for lst in lists:
        add("ListBase", lst)
    for w in wrong if thorough else wrong[:4]:
        add("ListBase", [w])
        add("ListBase", [items[1], w])
        add("ListBase", [w, items[1]])
    add("ListBase", Bad("dict", {"k": G.path("Base")}, None))
    dicts = [{}, {"k1": items[0]}, {"k1": items[1], "k2": items[2]}, {"p": items[3], "q": items[4], "r": items[0]}, {"f": items[5]}]
    for d in dicts:
        add("DictBase", d)
    for w in wrong if thorough else wrong[:4]:
        add("DictBase", {"k1": w})
        add("DictBase", {"k1": items[1], "k2": w})

    # nested: Holder / HolderSub
    children = [S("Base"), S("Base", a=5), S("SubAdd", b=2), S("SubOver", a="w"), S("SubReq", r=3), S("SubKw", kw={"q": 4}), S("make_base", a=4)]
    opts = ["absent", None, S("Base", a=5), S("SubAdd")]
    bad_children = [S("Unrelated"), S("Holder", child=S("Base")), S("NOT_A_CLASS"), S("no_attr"), S("bare:Unrelated"), S("make_unrelated"),
                    S("Base", a=Bad("str", "zz", "zz")), S("Base", q=1), S("SubReq"), S("SubOver", s="k"), S("AbsBase"), None, Bad("int", 5, "5")]
    for ci, child in enumerate(children):
        for oi, opt in enumerate(opts):
            if not thorough and (ci + oi) % 2 and ci > 1:
                continue
            args = {"child": child}
            if opt != "absent":
                args["opt"] = opt
            if (ci + oi) % 3 == 0:
                args["n"] = 2
            add("Holder", S("Holder", **args))
            if thorough or (ci + oi) % 3 == 1:
                add("Holder", S("HolderSub", extra=S("Unrelated", u=3), **args))
    add("Holder", S("HolderSub", child=S("Base")))
    add("Holder", S("HolderSub", child=S("Base"), extra=None))
    for bc in bad_children:
        add("Holder", S("Holder", child=bc))
        if thorough or bc is None or isinstance(bc, Bad) or bc["cls"] in ("Unrelated", "Base"):
            if bc is not None:
                add("Holder", S("Holder", child=S("Base"), opt=bc))
            add("Holder", S("HolderSub", child=S("SubAdd", b=2), extra=S("Unrelated"), opt=bc) if bc is not None else S("HolderSub", extra=S("Unrelated")))
    add("Holder", S("Holder"))  # child missing
    add("Holder", S("Holder", opt=S("Base")))
    add("Holder", S("HolderSub", child=S("Base"), extra=S("Base")))  # extra must be Unrelated
    add("Holder", S("HolderSub", child=S("Base"), extra=S("Unrelated", s="k")))
    add("Holder", S("Holder", child=S("Base"), extra=S("Unrelated")))  # parameter of the subclass given to the base
    add("Holder", S("Holder", child=S("Base"), n=Bad("str", "zz", "zz")))
    add("Holder", S("Holder", child=S("Base"), zzz=1))
    add("Holder", S("Deep", holder=S("Holder", child=S("Base"))))  # unrelated class at the top
    add("Holder", S("Holder", kw={"q": 1}, child=S("Base")))

    # two levels: Deep
    holders = [S("Holder", child=S("Base", a=5)), S("Holder", child=S("SubAdd", b=2), opt=S("SubOver", a="w"), n=2),
               S("HolderSub", child=S("SubReq", r=3), extra=S("Unrelated", u=3)), S("HolderSub", child=S("SubKw", kw={"q": 4}, a=5), opt=None)]
    holders.append(S("Holder", child=S("Base"), opt=None))
    for hi, hold in enumerate(holders):
        add("Deep", S("Deep", holder=hold))
        add("Deep", S("Deep", holder=hold, tag="hello"))
    bad_holders = [S("Holder", child=S("Unrelated")), S("Holder", child=S("Base", a=Bad("str", "zz", "zz"))), S("Holder", child=S("Base", q=1)),
                   S("Holder"), S("Base"), S("Holder", child=S("SubReq")), S("HolderSub", child=S("Base"), extra=S("SubAdd")),
                   S("Holder", child=S("Base"), opt=S("Unrelated")), S("Holder", child=S("make_untyped")), S("Holder", child=S("a_module"))]
    for hold in bad_holders if thorough else bad_holders[:7]:
        add("Deep", S("Deep", holder=hold))
    add("Deep", S("Deep"))
    add("Deep", S("Deep", holder=holders[0], tag=Bad("int", 5, None)))

    # List / Dict / Union parameters of a class: Multi
    manys = ["absent", [], [S("Base")], [S("Base", a=5), S("SubAdd", b=2)], [S("SubOver"), S("SubReq", r=1), S("SubKw", kw={"q": 4})], None]
    bynames = ["absent", {"k1": S("Base")}, {"k1": S("SubAdd", b=2), "k2": S("SubOver", a="w")}]
    eithers = ["absent", S("Base", a=5), S("Unrelated", u=4), S("SubAdd"), None]
    n = 0
    for mi, many in enumerate(manys):
        for bi, byname in enumerate(bynames):
            for ei, either in enumerate(eithers):
                n += 1
                if not thorough and n % 6 != 1 and not (mi == 0 and bi == 0) and not (mi == 0 and ei == 0) and not (bi == 0 and ei == 0):
                    continue
                args = {}
                if many != "absent":
                    args["many"] = many
                if byname != "absent":
                    args["byname"] = byname
                if either != "absent":
                    args["either"] = either
                add("Multi", S("Multi", **args))
    bad_multi = [
        {"many": [S("Unrelated")]}, {"many": [S("Base"), S("Unrelated")]}, {"many": [S("Base", a=Bad("str", "zz", "zz"))]}, {"many": [S("SubAdd", b=2), S("Base", q=1)]},
        {"many": [S("SubReq")]}, {"many": [S("NOT_A_CLASS")]}, {"many": S("Base")} if False else {"many": Bad("int", 5, "5")},
        {"byname": {"k1": S("Unrelated")}}, {"byname": {"k1": S("Base"), "k2": S("Base", a=Bad("float", 1.5, "1.5"))}}, {"byname": {"k1": S("no_module")}},
        {"byname": Bad("list", [G.path("Base")], None)},
        {"either": S("Holder", child=S("Base"))}, {"either": S("Unrelated", s="4")}, {"either": S("Base", u=4)}, {"either": S("Unrelated", u=Bad("str", "zz", "zz"))},
        {"either": S("make_untyped")}, {"either": S("builtin_int")}, {"either": S("AbsBase")}, {"either": Bad("int", 5, "5")},
    ]
    for args in bad_multi:
        add("Multi", S("Multi", **args))
        if thorough:
            add("Multi", S("Multi", **{"many": [S("Base")], "byname": {"k": S("SubAdd")}, "either": S("Unrelated"), **args}))
    return cases


# ---------------------------------------------------------------------- Part A: one case through every notation
def notations_for(decl, value):
    """name -> (feed kind, payload, default) for every notation that can express `value`."""
    pd = DECL[decl][1]
    out = {}
    explicit = G.render_json(value, pd)
    short = G.render_json(value, pd, short=True)
    out["obj"] = ("obj", {"x": explicit}, None)
    if explicit is not None or True:
        out["json"] = ("argv", ["--x=" + json.dumps(explicit)], None)
        out["cfg"] = ("argv", ["--cfg", json.dumps({"x": explicit})], None)
        if short != explicit:
            out["short"] = ("argv", ["--x=" + json.dumps(short) if not isinstance(short, str) else "--x=" + short], None)
            out["short-obj"] = ("obj", {"x": short}, None)
    dotted = G.render_dotted("x", value, pd)
    if dotted is not None and not isinstance(value, Bad) and value is not None:
        out["dotted"] = ("argv", dotted, None)
        if isinstance(value, dict) and "cls" in value and value.get("args"):
            ia = G.render_dotted("x", value, pd, ia=True)
            if ia is not None:
                out["dotted-ia"] = ("argv", ia, None)
    if isinstance(value, dict) and "cls" in value and pd["kind"] == "cls" and (value.get("args") or value.get("kw")):
        name = value["cls"]
        cp = G.IMPORTS[name][0]
        model = G.MODEL.get(name, {"params": {}})
        ia = {}
        if value.get("args"):
            ia["init_args"] = {k: G.render_json(v, model["params"].get(k)) for k, v in value["args"].items()}
        if value.get("kw"):
            ia["dict_kwargs"] = value["kw"]
        # init_args without class_path: the class was named by an earlier option / by the default of the argument
        out["ia-only"] = ("argv", [f"--x={cp}", "--x=" + json.dumps(ia)], None)
        out["ia-default"] = ("argv", ["--x=" + json.dumps(ia)], {"class_path": cp})
        if value.get("args") and not value.get("kw"):
            out["bare-args"] = ("argv", [f"--x={cp}", "--x=" + json.dumps(ia["init_args"])], None)
            sub = []
            for k, v in value["args"].items():
                d = G.render_dotted(f"x.{k}", v, model["params"].get(k))
                if d is None:
                    sub = None
                    break
                sub += d
            if sub is not None:
                out["dotted-default"] = ("argv", sub, {"class_path": cp})
    return out


def feed(parser, kind, payload):
    if kind == "obj":
        return outcome(parser.parse_object, payload)
    return outcome(parser.parse_args, list(payload))


def instantiate(parser, cfg):
    del G.LOG[:]
    res = outcome(parser.instantiate_classes, cfg)
    log = list(G.LOG)
    del G.LOG[:]
    return res, log


def built_problems(res, log, want_cfg):
    problems = []
    G.check_built(res[1].x if hasattr(res[1], "x") else res[1]["x"], want_cfg, log, problems)
    nc, nf = G.count_specs(want_cfg)
    made = G.constructions(log)
    if made != nc + nf:  # every factory of the family builds exactly one object
        problems.append(("x", "extra", f"{made} objects constructed, configuration names {nc} classes and {nf} factories"))
    if G.factory_calls(log) != nf:
        problems.append(("x", "once", f"{G.factory_calls(log)} factory calls, configuration names {nf} factories"))
    return problems


def run_partA(case):
    ev = []
    decl, value = case["decl"], case["value"]
    pd = DECL[decl][1]
    ok = G.valid(pd, value)
    null_only = ok is False and G.valid_but_for_null(pd, value)
    lab = case["id"]
    nots = notations_for(decl, value)
    if case.get("notations"):
        nots = {k: v for k, v in nots.items() if k in case["notations"]}
    want = G.expected(pd, value) if ok else None
    inst_done = False
    accepted = 0
    for nname, (kind, payload, default) in nots.items():
        key = f"{lab}:{nname}"
        info = {"parser": summary(decl, default), "notation": nname, "call": "parse_object" if kind == "obj" else "parse_args", "input": payload}
        if default is not None and ok is False:
            # an invalid class path cannot be a default (add_argument itself rejects it): not a parse-time case
            if not G.conforms(value["cls"], pd["of"]):
                continue
        try:
            parser = make_parser(decl, default)
        except Exception as ex:  # noqa
            ev.append(("check", ok is not True, K("add_argument", key), f"add_argument rejected the default of a valid configuration: {ex!r}"[:300], info))
            continue
        res = feed(parser, kind, payload)
        info["result"] = res[:2] if res[0] != "ok" else G.plain(res[1]).get("x")
        if ok is False and null_only:
            if nname not in ("obj", "json", "dotted"):
                continue
            # not asserted: jsonargparse never type-checks null (C02: "every non-null value conforms"), so null for a
            # non-Optional init_arg is the library-wide rule, not a class_path matter
            ev.append(("nt", ("A", "null-unasserted", lab, nname)))
            continue
        if ok is False:
            ev.append(("check", res[0] != "ok", K("accepted-invalid", key), "a configuration that is invalid for the declared type / the named class was accepted", info))
            ev.append(("nt", ("A", "invalid", lab, nname)))
            continue
        if ok is None:
            # outside the asserted region: remember what happened
            if res[0] == "ok":
                r2, _ = instantiate(parser, res[1])
                ev.append(("note", f"unasserted: dict_kwargs for a class without **kwargs / naming a declared parameter: parse accepted, instantiate -> {r2[0]}{':' + r2[1] if r2[0] == 'exc' else ''}"))
            else:
                ev.append(("note", "unasserted: dict_kwargs for a class without **kwargs / naming a declared parameter: parse rejected"))
            continue
        if res[0] != "ok":
            clause = "dotted-null-below-first-level-rejected" if nname.startswith("dotted") and deep_none(value) else "valid-rejected"
            ev.append(("check", False, K(clause, key), f"a valid configuration was rejected: {res[1:]}"[:400], info))
            continue
        accepted += 1
        got = G.plain(res[1]).get("x")
        same = got == want and _same_types(got, want)
        ev.append(("check", same, K("config", key), f"parsed configuration {got!r} differs from the configuration denoted by the explicit form {want!r}"[:600], info))
        ev.append(("nt", ("A", "valid", lab, nname)))
        if G.instantiable(value) and (not inst_done or not same):
            inst_done = inst_done or same
            r2, log = instantiate(parser, res[1])
            if r2[0] != "ok":
                ev.append(("check", False, K("instantiate", key), f"instantiate_classes failed on an accepted configuration of an instantiable class: {r2[1:]}"[:400], info))
            else:
                problems = built_problems(r2, log, got if not same else want)
                info2 = dict(info, log=[(r[1], r[2], {k: (v if not hasattr(v, '__dict__') else type(v).__name__) for k, v in r[3].items()}) for r in log])
                ev.append(("check", not problems, K("built" + ("-" + problems[0][1] if problems else ""), key), f"objects do not match the configuration: {problems[:3]}"[:500], info2))
        elif not G.instantiable(value) and not inst_done:
            inst_done = True
            r2, log = instantiate(parser, res[1])
            # an abstract class cannot be built; nothing is asserted beyond "no object of a wrong type is returned"
            bad_obj = r2[0] == "ok" and value is not None and isinstance(value, dict) and "cls" in value and G.MODEL[value["cls"]].get("abstract")
            ev.append(("check", not bad_obj, K("abstract-built", key), "an abstract class was instantiated", info))
    if ok is True and accepted and len(ev) < 400:
        ev.append(("sample", {"decl": decl, "value": G.label(value), "notations_accepted": accepted}))
    return ev


def deep_none(value, depth=0):
    """None as an argument of a class that is itself an argument of a class (written `--x.p.q=null` in dotted notation)."""
    if isinstance(value, dict) and "cls" in value:
        for v in value.get("args", {}).values():
            if v is None and depth >= 1:
                return True
            if deep_none(v, depth + 1):
                return True
    return False


def _same_types(a, b):
    if isinstance(a, dict) and isinstance(b, dict):
        return set(a) == set(b) and all(_same_types(a[k], b[k]) for k in a)
    if isinstance(a, list) and isinstance(b, list):
        return len(a) == len(b) and all(_same_types(x, y) for x, y in zip(a, b))
    return type(a) is type(b)


# ====================================================================== Part B: class changes between sources
FLAT = ["Base", "SubAdd", "SubOver", "SubReq", "SubKw"]
ARGS1 = {
    "Base": [{}, {"a": 5, "s": "hello"}],
    "SubAdd": [{"b": 2}, {"b": 2, "a": 5}],
    "SubOver": [{"a": "hello"}, {"a": "12", "c": True}],
    "SubReq": [{"r": 3}, {"r": 3, "a": 5}],
    "SubKw": [{"kw": {"q": 4}}, {"a": 5, "kw": {"q": 4, "w": "hello"}}],
    "Unrelated": [{"u": 4}, {"a": 5, "u": 4}],
}
ARGS2 = {
    "Base": [{}, {"s": "late"}],
    "SubAdd": [{}, {"b": 0.25}],
    "SubOver": [{}, {"c": True}],
    "SubReq": [{"r": 9}, {"r": 9, "a": -3}],
    "SubKw": [{}, {"kw": {"z": 1}}],
    "Unrelated": [{}, {"u": -3}],
}
# arguments given with the second class that are NOT valid for it (parameter of a sibling / required one missing)
ARGS2_BAD = {"Base": {"b": 2}, "SubAdd": {"c": True}, "SubOver": {"s": "late"}, "SubReq": {"a": -3}, "SubKw": {"s": "late"}, "Unrelated": {"s": "late"}}
CHANNEL_SEQS = [("default", "dotted"), ("default", "json"), ("default", "cfg"), ("env", "dotted"), ("env", "cfg"), ("cfg", "cfg"), ("cfg", "dotted"), ("cfg", "json"),
                ("dotted", "dotted"), ("json", "json"), ("dotted", "json"), ("json", "dotted")]


def step(channel, cls, args):
    args = dict(args)
    kw = args.pop("kw", None)
    return {"ch": channel, "cls": cls, "args": args, "kw": kw or {}}


def partB_cases(thorough):
    cases = []

    def add(decl, steps, tag):
        lab = "+".join(f"{s['ch']}[{s['cls'] or ''}({','.join(f'{k}={v}' for k, v in s['args'].items())}{';' + ','.join(s['kw']) if s['kw'] else ''})]" for s in steps)
        cases.append({"part": "B", "decl": decl, "steps": steps, "id": G.short_key(f"B:{decl}:{lab}"), "tag": tag})

    for c1 in FLAT + ["Unrelated"]:
        for c2 in FLAT + ["Unrelated"]:
            decl = "UnionBU" if "Unrelated" in (c1, c2) else "Base"
            if c1 == c2 == "Unrelated":
                continue
            for i1, a1 in enumerate(ARGS1[c1]):
                for i2, a2 in enumerate(ARGS2[c2] + [ARGS2_BAD[c2]]):
                    for ci, chans in enumerate(CHANNEL_SEQS):
                        if not thorough and (i1 + i2 + ci) % 4 and not (c1 == "SubKw" and i1 == 0 and i2 == 0):
                            continue
                        add(decl, [step(chans[0], c1, a1), step(chans[1], c2, a2)], f"{c1}>{c2}")
    # three steps: A -> B -> A again, and arguments given without naming the class after a change
    for c1 in FLAT:
        for c2 in FLAT:
            if c1 == c2:
                continue
            for ci, chans in enumerate([("cfg", "dotted", "dotted"), ("default", "cfg", "json"), ("json", "json", "dotted"), ("env", "cfg", "dotted")]):
                if not thorough and (FLAT.index(c1) + FLAT.index(c2) + ci) % 2:
                    continue
                add("Base", [step(chans[0], c1, ARGS1[c1][1]), step(chans[1], c2, ARGS2[c2][0]), step(chans[2], c1, ARGS2[c1][-1])], f"{c1}>{c2}>{c1}")
                later = {"Base": {"a": -3}, "SubAdd": {"s": "late"}, "SubOver": {"a": "late"}, "SubReq": {"a": -3}, "SubKw": {"a": -3, "kw": {"z": 1}}}[c2]
                add("Base", [step(chans[0], c1, ARGS1[c1][1]), step(chans[1], c2, ARGS2[c2][0]), step(chans[2], None, later)], f"{c1}>{c2}>args")
    return cases


def render_step(s, first_cp=None):
    """-> ('default', json) | ('env', text) | ('argv', [..])"""
    ch = s["ch"]
    if s["cls"]:
        spec = {"class_path": G.IMPORTS[s["cls"]][0]}
        if s["args"]:
            spec["init_args"] = dict(s["args"])
    else:
        spec = {"init_args": dict(s["args"])} if s["args"] else {}
    if s["kw"]:
        spec["dict_kwargs"] = dict(s["kw"])
    if ch == "default":
        return ("default", spec)
    if ch == "env":
        return ("env", json.dumps(spec))
    if ch == "cfg":
        return ("argv", ["--cfg", json.dumps({"x": spec})])
    if ch == "json":
        return ("argv", ["--x=" + json.dumps(spec)])
    out = []
    if s["cls"]:
        out.append(f"--x={s['cls']}")
    for k, v in s["args"].items():
        out.append(f"--x.{k}={G.argv_scalar(v)}")
    for k, v in s["kw"].items():
        out.append(f"--x.dict_kwargs.{k}={G.argv_scalar(v)}")
    return ("argv", out)


def candidates(v):
    c = [v]
    if isinstance(v, (int, float)) and not isinstance(v, bool):
        c += [float(v), str(v)]
        if float(v) == int(v):
            c.append(int(v))
    if isinstance(v, str):
        try:
            c.append(int(v))
            c.append(float(v))
        except ValueError:
            pass
    return c


def run_partB(case):
    ev = []
    decl, steps, lab = case["decl"], case["steps"], case["id"]
    default, env, argv = None, None, []
    for s in steps:
        kind, payload = render_step(s)
        if kind == "default":
            default = payload
        elif kind == "env":
            env = payload
        else:
            argv += payload
    info = {"parser": summary(decl, default, env is not None), "env": {"J14_X": env} if env else None, "call": "parse_args", "input": argv}
    try:
        parser = make_parser(decl, default, env is not None)
    except Exception as ex:  # noqa
        ev.append(("note", f"part B: add_argument rejected a default ({type(ex).__name__})"))
        return ev
    saved = os.environ.get("J14_X")
    if env is not None:
        os.environ["J14_X"] = env
    try:
        res = outcome(parser.parse_args, argv)
    finally:
        if saved is None:
            os.environ.pop("J14_X", None)
        else:
            os.environ["J14_X"] = saved
    # reference: the class in force at every step, the epoch of the last class change, what was given since
    force, cur = [], None
    for s in steps:
        cur = s["cls"] or cur
        force.append(cur)
    epoch = max([0] + [i for i in range(1, len(steps)) if force[i] != force[i - 1]])
    final = force[-1]
    model = G.MODEL[final]

    def step_valid(i):
        params = G.MODEL[force[i]]["params"]
        return all(k in params and G.valid(params[k], v) is True for k, v in steps[i]["args"].items())

    since_args, since_kw_merge, since_kw_last = {}, {}, {}
    for s in steps[epoch:]:
        since_args.update(s["args"])
        since_kw_merge.update(s["kw"])
        if s["kw"]:
            since_kw_last = dict(s["kw"])
    given = {}
    for s in steps:
        for k, v in s["args"].items():
            given.setdefault(k, []).extend(candidates(v))
        if s["cls"]:  # the defaults of a class named earlier are materialised in the configuration and may be carried over
            for k, kpd in G.MODEL[s["cls"]]["params"].items():
                if kpd["default"] != G.REQUIRED:
                    given.setdefault(k, []).extend(candidates(kpd["default"]))
    all_valid_since = all(step_valid(i) for i in range(epoch, len(steps)))
    all_valid_before = all(step_valid(i) for i in range(epoch))
    required = [k for k, pd in model["params"].items() if pd["default"] == G.REQUIRED]
    required_since = all(k in since_args for k in required)
    required_ever = all(any(k in s["args"] for s in steps) for k in required)
    if not all_valid_since or not required_ever:
        verdict = "reject"  # an argument that is not valid for the class in force, or a required one never given
    elif required_since and all_valid_before:
        verdict = "accept"
    else:
        # a required argument given only before the class change (carried over or not), or an argument that was not
        # valid for an earlier class in force (rejected on the spot or dropped by the change): the statement fixes neither
        verdict = "either"
    if res[0] != "ok":
        info["result"] = res[:3]
        if verdict == "accept":
            ev.append(("check", False, K("seq-rejected", lab), f"every step is valid and the final class has all it needs, yet parsing failed: {res[1:]}"[:400], info))
        else:
            if verdict == "reject":
                ev.append(("check", True, K("accepted-invalid", lab), "", None))
            ev.append(("nt", ("B", "rejected", lab)))
        return ev
    if verdict == "reject":
        info["result"] = G.plain(res[1]).get("x")
        ev.append(("check", False, K("accepted-invalid", lab), f"arguments {since_args} given with/after the last class change are not valid for {final}, yet the sequence was accepted", info))
        return ev
    got = G.plain(res[1]).get("x")
    info["result"] = got
    changed = len(set(force)) > 1
    ev.append(("nt", ("B", "accepted", lab)))
    ok = isinstance(got, dict) and got.get("class_path") == G.IMPORTS[final][0]
    ev.append(("check", ok, K("final-class", lab), f"the configuration does not name the last class {final}", info))
    if not ok:
        return ev
    init = got.get("init_args") or {}
    bad = [k for k, v in init.items() if k not in model["params"] or not G.valid(model["params"][k], v)]
    missing = [k for k, pd in model["params"].items() if pd["default"] == G.REQUIRED and init.get(k) is None]
    ev.append(("check", not bad and not missing, K("init_args-valid", lab), f"init_args {init} are not valid for {final}: foreign/ill-typed {bad}, missing {missing}", info))
    wrong = {k: (init.get(k, "<absent>"), v) for k, v in since_args.items()
             if k in model["params"] and not (k in init and init[k] == G.expected(model["params"][k], v) and type(init[k]) is type(G.expected(model["params"][k], v)))}
    if all_valid_since:
        ev.append(("check", not wrong, K("given-since-change", lab), f"arguments given with/after the last class change are not in the configuration (got, given): {wrong}", info))
    nowhere = {k: v for k, v in init.items() if k in model["params"] and v != model["params"][k]["default"] and v not in given.get(k, [])}
    ev.append(("check", not nowhere, K("provenance", lab), f"values that were never configured and are not defaults: {nowhere}", info))
    kw = got.get("dict_kwargs") or {}
    # dict_kwargs must have been configured for the final class (in any step where that class was in force)
    for_final = {}
    for i, s in enumerate(steps):
        if force[i] == final:
            for_final.update(s["kw"])
    kw_ok = all(k in for_final and for_final[k] == v for k, v in kw.items()) and all(k in kw for k in since_kw_last)
    stale = not kw_ok and changed and all(k in {k2 for s in steps[:epoch] for k2 in s["kw"]} for k in kw if k not in for_final)
    r2, log = instantiate(parser, res[1])
    if stale:
        prev = [force[i] for i in range(epoch) if any(k in steps[i]["kw"] for k in kw if k not in for_final)][-1]
        chans = "+".join(s["ch"] for s in steps)
        ev.append(("check", False, f"c14:class-change:stale-dict_kwargs:{prev}>{final}:first-given-by-{steps[0]['ch']}",
                   f"dict_kwargs {kw} given for {prev} survive the change to {final} (channels {chans}; configured since the change: {since_kw_merge}); "
                   f"instantiate_classes -> {r2[:3] if r2[0] != 'ok' else 'ok'}"[:500], info))
        return ev
    ev.append(("check", kw_ok, K("dict_kwargs", lab), f"dict_kwargs {kw} are not the ones configured for the final class {for_final}", info))
    if model.get("abstract"):
        return ev
    if kw and not model.get("kw"):
        ev.append(("note", "part B unasserted: dict_kwargs given to a class without **kwargs"))
        return ev
    if r2[0] != "ok":
        ev.append(("check", False, K("instantiate", lab), f"instantiate_classes failed on an accepted configuration: {r2[1:]}"[:400], info))
        return ev
    problems = built_problems(r2, log, got)
    ev.append(("check", not problems, K("built" + ("-" + problems[0][1] if problems else ""), lab), f"objects do not match the configuration: {problems[:3]}"[:500], info))
    return ev


# ====================================================================== Part C: nested class changes and special imports
def run_partC(case):
    ev = []
    lab = case["id"]
    kind = case["kind"]
    if kind == "instance":
        for decl, expect_ok in (("Base", None), ("Unrelated", False), ("AbsBase", False)):
            parser = make_parser(decl)
            res = outcome(parser.parse_args, ["--x=" + G.path("BASE_INSTANCE")])
            info = {"parser": summary(decl), "input": ["--x=" + G.path("BASE_INSTANCE")], "result": res[:2] if res[0] != "ok" else "instance of " + type(res[1].x).__name__}
            if expect_ok is False:
                ev.append(("check", res[0] != "ok", K("accepted-invalid", f"{lab}:{decl}"), "an import path of an instance of a foreign class was accepted", info))
            elif res[0] == "ok":
                ev.append(("check", res[1].x is G.BASE_INSTANCE, K("instance-identity", f"{lab}:{decl}"), "accepted import path of an instance does not yield that instance", info))
                ev.append(("note", "unasserted: import path of an *instance* of the declared class is accepted and yields the instance (feature; the statement names only classes and callables)"))
            ev.append(("nt", ("C", "instance", decl)))
        return ev
    # nested class change: argv sequences on Deep / Holder
    decl, argv, final_model = case["decl"], case["argv"], case["final"]
    parser = make_parser(decl)
    res = outcome(parser.parse_args, argv)
    info = {"parser": summary(decl), "input": argv, "result": res[:3] if res[0] != "ok" else G.plain(res[1]).get("x")}
    pd = DECL[decl][1]
    if final_model is None:
        ev.append(("check", res[0] != "ok", K("accepted-invalid", lab), "sequence ending in an invalid configuration was accepted", info))
        ev.append(("nt", ("C", "seq-invalid", lab)))
        return ev
    if res[0] != "ok":
        ev.append(("check", False, K("seq-rejected", lab), f"valid sequence rejected: {res[1:]}"[:400], info))
        return ev
    got = G.plain(res[1]).get("x")
    want = G.expected(pd, final_model)
    ev.append(("check", got == want and _same_types(got, want), K("config", lab), f"configuration after the class change {got!r} differs from {want!r}"[:600], info))
    ev.append(("nt", ("C", "seq", lab)))
    r2, log = instantiate(parser, res[1])
    if r2[0] != "ok":
        ev.append(("check", False, K("instantiate", lab), f"instantiate_classes failed: {r2[1:]}"[:400], info))
    else:
        problems = built_problems(r2, log, got)
        ev.append(("check", not problems, K("built" + ("-" + problems[0][1] if problems else ""), lab), f"objects do not match the configuration: {problems[:3]}"[:500], info))
    return ev


def partC_cases(thorough):
    cases = [{"part": "C", "kind": "instance", "id": "C:importable-instance"}]

    def add(decl, argv, final, tag):
        cases.append({"part": "C", "kind": "seq", "decl": decl, "argv": argv, "final": final, "id": G.short_key(f"C:{decl}:{tag}")})

    J = json.dumps
    hs = {"class_path": "HolderSub", "init_args": {"extra": {"class_path": G.path("Unrelated"), "init_args": {"u": 3}}, "child": {"class_path": "SubAdd", "init_args": {"b": 2}}, "n": 2}}
    # where the statement fixes the result: the parameters the new class does not have are gone, the valid rest is what was configured
    add("Holder", ["--x=" + J(hs), "--x=Holder"], S("Holder", child=S("SubAdd", b=2), n=2), "HolderSub>Holder:json+dotted")
    add("Holder", ["--cfg", J({"x": hs}), "--x=Holder"], S("Holder", child=S("SubAdd", b=2), n=2), "HolderSub>Holder:cfg+dotted")
    add("Holder", ["--cfg", J({"x": hs}), "--cfg", J({"x": {"class_path": "Holder"}})], S("Holder", child=S("SubAdd", b=2), n=2), "HolderSub>Holder:cfg+cfg")
    add("Holder", ["--x=" + J(hs), "--x.child=SubOver"], S("HolderSub", extra=S("Unrelated", u=3), child=S("SubOver"), n=2), "child:SubAdd>SubOver")
    add("Holder", ["--x=" + J(hs), "--x.child=SubOver", "--x.child.c=true"], S("HolderSub", extra=S("Unrelated", u=3), child=S("SubOver", c=True), n=2), "child:SubAdd>SubOver+c")
    add("Holder", ["--x=" + J(hs), "--x.child=SubReq"], None, "child:SubAdd>SubReq-missing-r")
    add("Holder", ["--x=" + J(hs), "--x.child=SubReq", "--x.child.r=3", "--x.child.a=5"], S("HolderSub", extra=S("Unrelated", u=3), child=S("SubReq", r=3, a=5), n=2), "child:SubAdd>SubReq+r+a")
    add("Holder", ["--x=" + J(hs), "--x.child=" + G.path("Unrelated")], None, "child:SubAdd>Unrelated")
    add("Holder", ["--x=" + J(hs), "--x.extra=Base"], None, "extra:Unrelated>Base")
    add("Holder", ["--x=" + J(hs), "--x=Holder", "--x.extra=Unrelated"], None, "HolderSub>Holder+extra")
    add("Holder", ["--x=" + J(hs), "--x.child.b=0.25", "--x.opt=SubKw", "--x.opt.dict_kwargs.q=4"],
        S("HolderSub", extra=S("Unrelated", u=3), child=S("SubAdd", b=0.25), opt=S("SubKw", kw={"q": 4}), n=2), "same-class-later-args")
    dp = {"class_path": "Deep", "init_args": {"holder": hs, "tag": "hello"}}
    add("Deep", ["--x=" + J(dp), "--x.holder=Holder"], S("Deep", holder=S("Holder", child=S("SubAdd", b=2), n=2), tag="hello"), "holder:HolderSub>Holder")
    add("Deep", ["--cfg", J({"x": dp}), "--x.holder.child=SubOver", "--x.holder.child.a=w"],
        S("Deep", holder=S("HolderSub", extra=S("Unrelated", u=3), child=S("SubOver", a="w"), n=2), tag="hello"), "holder.child:SubAdd>SubOver")
    add("Deep", ["--cfg", J({"x": dp}), "--x.holder.child=Base", "--x.holder=Holder", "--x.holder.child.a=5"],
        S("Deep", holder=S("Holder", child=S("Base", a=5), n=2), tag="hello"), "holder+child-change")
    add("Deep", ["--cfg", J({"x": dp}), "--x.holder.child=" + G.path("NOT_A_CLASS")], None, "holder.child>non-class")
    add("Deep", ["--cfg", J({"x": dp}), "--x.holder.extra.u=zz"], None, "holder.extra.u-ill-typed")
    add("Deep", ["--cfg", J({"x": dp}), "--x.holder.extra.u=-3", "--x.tag=12"],
        S("Deep", holder=S("HolderSub", extra=S("Unrelated", u=-3), child=S("SubAdd", b=2), n=2), tag="12"), "later-scalars")
    mu = {"class_path": "Multi", "init_args": {"many": ["Base", {"class_path": "SubAdd", "init_args": {"b": 2}}], "either": {"class_path": G.path("Unrelated"), "init_args": {"u": 4}}}}
    add("Multi", ["--x=" + J(mu), "--x.either=Base"], S("Multi", many=[S("Base"), S("SubAdd", b=2)], either=S("Base")), "either:Unrelated>Base")
    add("Multi", ["--x=" + J(mu), "--x.either=Base", "--x.either.u=4"], None, "either:Unrelated>Base+u")
    add("Multi", ["--x=" + J(mu), "--x.many+=SubOver", "--x.many.c=true"], S("Multi", many=[S("Base"), S("SubAdd", b=2), S("SubOver", c=True)], either=S("Unrelated", u=4)), "many+=SubOver")
    add("Multi", ["--x=" + J(mu), "--x.many+=" + G.path("Unrelated")], None, "many+=Unrelated")
    add("Multi", ["--x=" + J(mu), "--x.many=[]", "--x.either=null"], S("Multi", many=[], either=None), "reset")
    return cases



# ====================================================================== Part D: several class-typed components in one parser
def make_parser_D():
    """top-level class argument, class argument below a dotted key, class group with a class-typed parameter, subcommand"""
    parser = ArgumentParser(exit_on_error=False)
    parser.add_argument("--cfg", action="config")
    parser.add_argument("--x", type=G.Base)
    parser.add_argument("--grp.y", type=Optional[G.Unrelated])
    parser.add_class_arguments(G.Holder, "g")
    sub = ArgumentParser(exit_on_error=False)
    sub.add_argument("--m", type=G.Base, default={"class_path": G.path("SubAdd")})
    sub.add_argument("--k", type=int, default=0)
    other = ArgumentParser(exit_on_error=False)
    other.add_argument("--o", type=Optional[G.Unrelated])
    sc = parser.add_subcommands()
    sc.add_subcommand("run", sub)
    sc.add_subcommand("other", other)
    return parser


SUMMARY_D = ("ArgumentParser(exit_on_error=False): --cfg (config), --x: Base, --grp.y: Optional[Unrelated], add_class_arguments(Holder, 'g'), "
             "subcommands run(--m: Base = SubAdd, --k: int) / other(--o: Optional[Unrelated]); classes from bounded.gen_j")


def partD_cases(thorough):
    xs = [S("Base", a=5), S("SubAdd", b=2), S("SubKw", kw={"q": 4}), S("Inner", i=3), S("make_base", a=4)]
    ys = [None, S("Unrelated", u=4)]
    children = [S("Base"), S("SubOver", a="w"), S("SubReq", r=3)]
    opts = [None, S("SubAdd", b=0.25)]
    ms = ["default", S("Base", a=-3), S("SubOver", c=True)]
    out = []
    n = 0
    for xi, x in enumerate(xs):
        for yi, y in enumerate(ys):
            for ci, child in enumerate(children):
                for oi, opt in enumerate(opts):
                    for mi, m in enumerate(ms):
                        n += 1
                        if not thorough and n % 7 != 1:
                            continue
                        out.append({"part": "D", "x": x, "y": y, "child": child, "opt": opt, "m": m, "sub": "run",
                                    "id": G.short_key(f"D:x={G.label(x)},y={G.label(y)},g=({G.label(child)},{G.label(opt)}),run.m={G.label(m) if m != 'default' else 'default'}")})
    out.append({"part": "D", "x": xs[0], "y": ys[1], "child": children[0], "opt": None, "m": None, "sub": "other", "id": "D:other-subcommand"})
    # one invalid component anywhere makes the whole parse fail
    for where, bad in (("x", S("Unrelated")), ("y", S("Base")), ("child", S("Unrelated")), ("child", S("Base", q=1)), ("opt", S("NOT_A_CLASS")), ("m", S("Unrelated")), ("m", S("SubAdd", c=True))):
        case = {"part": "D", "x": xs[0], "y": ys[1], "child": children[0], "opt": None, "m": "default", "sub": "run", "invalid": where}
        case[where] = bad
        case["id"] = G.short_key(f"D:invalid:{where}={G.label(bad)}")
        out.append(case)
    return out


def run_partD(case):
    ev = []
    lab = case["id"]
    pd_base, pd_unrel = P("cls", of=("Base",)), P("cls", of=("Unrelated",), optional=True)
    for notation in ("dotted", "cfg"):
        parser = make_parser_D()
        if notation == "dotted":
            argv = G.render_dotted("x", case["x"], pd_base)
            if case["y"] is not None:
                argv += G.render_dotted("grp.y", case["y"], pd_unrel)
            argv += G.render_dotted("g.child", case["child"], pd_base)
            if case["opt"] is not None:
                argv += G.render_dotted("g.opt", case["opt"], pd_base)
            argv += ["--g.n=2", case["sub"]]
            if case["sub"] == "run" and case["m"] != "default":
                argv += G.render_dotted("m", case["m"], pd_base)
            if case["sub"] == "run":
                argv += ["--k=7"]
        else:
            top = {"x": G.render_json(case["x"], pd_base), "grp": {"y": G.render_json(case["y"], pd_unrel)},
                   "g": {"child": G.render_json(case["child"], pd_base), "opt": G.render_json(case["opt"], pd_base), "n": 2}}
            if case["sub"] == "run":
                top["run"] = {"k": 7}
                if case["m"] != "default":
                    top["run"]["m"] = G.render_json(case["m"], pd_base)
            argv = ["--cfg", json.dumps(top), case["sub"]]
        key = f"{lab}:{notation}"
        info = {"parser": SUMMARY_D, "call": "parse_args", "input": argv}
        res = outcome(parser.parse_args, argv)
        if case.get("invalid"):
            info["result"] = res[:2] if res[0] != "ok" else G.plain(res[1])
            ev.append(("check", res[0] != "ok", K("accepted-invalid", key), f"an invalid class configuration at {case['invalid']} was accepted", info))
            ev.append(("nt", ("D", "invalid", key)))
            continue
        if res[0] != "ok":
            info["result"] = res[:3]
            ev.append(("check", False, K("valid-rejected", key), f"valid configuration rejected: {res[1:]}"[:400], info))
            continue
        got = G.plain(res[1])
        info["result"] = got
        m_model = S("SubAdd") if case["m"] == "default" else case["m"]
        want = {"x": G.expected_spec(case["x"]), "grp": {"y": G.expected(pd_unrel, case["y"])},
                "g": {"child": G.expected_spec(case["child"]), "opt": G.expected(P("cls", of=("Base",), optional=True), case["opt"]), "n": 2}}
        if case["sub"] == "run":
            want.update({"subcommand": "run", "run": {"m": G.expected_spec(m_model), "k": 7}})
        else:
            want.update({"subcommand": "other", "other": {"o": None}})
        got_cmp = {k: v for k, v in got.items() if k not in ("cfg", "__path__")}
        ev.append(("check", got_cmp == want and _same_types(got_cmp, want), K("config", key), f"parsed {got_cmp!r} differs from the denoted configuration {want!r}"[:700], info))
        ev.append(("nt", ("D", "valid", key)))
        del G.LOG[:]
        r2 = outcome(parser.instantiate_classes, res[1])
        log = list(G.LOG)
        del G.LOG[:]
        if r2[0] != "ok":
            ev.append(("check", False, K("instantiate", key), f"instantiate_classes failed: {r2[1:]}"[:400], info))
            continue
        init = r2[1]
        problems = []
        G.check_built(init["x"], want["x"], log, problems, "x")
        G.check_value(init["grp"]["y"], want["grp"]["y"], log, problems, "grp.y")
        # the class group is built as a Holder from its own members
        G.check_built(init["g"], {"class_path": G.path("Holder"), "init_args": want["g"]}, log, problems, "g")
        total = {"x": want["x"], "y": want["grp"]["y"], "g": {"class_path": G.path("Holder"), "init_args": want["g"]}}
        if case["sub"] == "run":
            G.check_built(init["run"]["m"], want["run"]["m"], log, problems, "run.m")
            if init["run"]["k"] != 7:
                problems.append(("run.k", "args", "plain value changed by instantiate_classes"))
            total["m"] = want["run"]["m"]
        nc, nf = G.count_specs(total)
        if G.constructions(log) != nc + nf:
            problems.append(("*", "extra", f"{G.constructions(log)} objects constructed, configuration names {nc} classes and {nf} factories"))
        if G.factory_calls(log) != nf:
            problems.append(("*", "once", f"{G.factory_calls(log)} factory calls, configuration names {nf} factories"))
        ev.append(("check", not problems, K("built" + ("-" + problems[0][1] if problems else ""), key), f"objects do not match the configuration: {problems[:3]}"[:500], info))
    return ev


def run_partE(h):
    """History and import-path cases (run in the main process, after the pooled parts).
    E1  a subclass defined *after* a first by-name lookup is still reachable by its bare name: the short form denotes the
        same configuration as the explicit form at every point of the history, not only for classes known at first use.
    E2  a class whose parent package exposes a *different* object under the same name: the accepted class_path imports
        to the very class that was named and checked, and instantiate_classes builds exactly that class."""
    import types

    from jsonargparse._util import import_object

    class EBase:
        def __init__(self, a: int = 1):
            self.a = a

    class ESub1(EBase):
        def __init__(self, a: int = 1, s1: int = 10):
            super().__init__(a)
            self.s1 = s1

    def publish(cls, name):
        cls.__module__, cls.__qualname__, cls.__name__ = G.__name__, name, name
        setattr(G, name, cls)

    publish(EBase, "EBase")
    publish(ESub1, "ESub1")
    for style in ("same-parser", "new-parser"):
        parser = ArgumentParser(exit_on_error=False)
        parser.add_argument("--shape", type=EBase)
        first = outcome(parser.parse_args, ["--shape=ESub1", "--shape.s1=3"])
        key = K("E1:late-subclass-by-name", style)
        if first[0] != "ok":
            h.check(False, key + ":setup", f"bare name of an existing subclass rejected: {first[:2]}", None)
            continue
        for n in range(2):
            name = f"ELate{n}{style[0]}"
            def late_init(self, a: int = 1, late: int = 7):
                self.a, self.late = a, late

            late = type(name, (EBase,), {"__init__": late_init})
            publish(late, name)
            if style == "new-parser":
                parser = ArgumentParser(exit_on_error=False)
                parser.add_argument("--shape", type=EBase)
            explicit = outcome(parser.parse_args, [f"--shape={G.__name__}.{name}", "--shape.late=9"])
            short = outcome(parser.parse_args, [f"--shape={name}", "--shape.late=9"])
            ok = explicit[0] == "ok" and short[0] == "ok" and short[1].as_dict() == explicit[1].as_dict()
            h.check(ok, f"{key}:{n}", f"explicit form -> {explicit[0]} {explicit[1].as_dict() if explicit[0] == 'ok' else explicit[1:3]}; bare name -> {short[0]} {short[1].as_dict() if short[0] == 'ok' else short[1:3]}",
                    {"history": ["--shape=ESub1", f"define {name}(EBase)", f"--shape={name}"]})
            h.nontrivial(key + str(n))
    # E2
    for depth in (1, 2):
        root = f"b14pkg{depth}"
        mods = [root, root + ".v2", root + ".v2.codecs"][: depth + 1]
        made = []
        for m in mods:
            mod = types.ModuleType(m)
            mod.__path__ = []
            sys.modules[m] = mod
            made.append(mod)
        for a, b in zip(made, made[1:]):
            setattr(a, b.__name__.rsplit(".", 1)[1], b)

        class Codec:
            def __init__(self, threads: int = 1):
                self.threads = threads

        Codec.__module__, Codec.__qualname__ = root, "Codec"
        made[0].Codec = Codec
        for variant in ("other-class-above", "same-class-above", "nothing-above"):
            class Fast(Codec):
                def __init__(self, threads: int = 1, window: int = 5):
                    super().__init__(threads)
                    self.window = window

            class Impostor(Codec):
                def __init__(self, threads: int = 1, level: str = "x"):
                    super().__init__(threads)
                    self.level = level

            Fast.__module__, Fast.__qualname__, Fast.__name__ = mods[-1], "Fast", "Fast"
            Impostor.__module__, Impostor.__qualname__, Impostor.__name__ = root, "Fast", "Fast"
            made[-1].Fast = Fast
            if variant == "other-class-above":
                made[0].Fast = Impostor
            elif variant == "same-class-above":
                made[0].Fast = Fast
            elif hasattr(made[0], "Fast"):
                del made[0].Fast
            key = K("E2:import-path-round-trip", f"{variant}:depth{depth}")
            parser = ArgumentParser(exit_on_error=False)
            parser.add_argument("--codec", type=Codec)
            res = outcome(parser.parse_args, [f"--codec={mods[-1]}.Fast", "--codec.window=8"])
            if res[0] != "ok":
                h.check(False, key + ":rejected", f"a valid class_path with a valid init_arg was rejected: {res[1:3]}", {"class_path": mods[-1] + ".Fast", "variant": variant})
                continue
            cp = res[1].codec.class_path
            back = outcome(import_object, cp)
            h.check(back[0] == "ok" and back[1] is Fast, key + ":class_path", f"accepted class_path {cp!r} imports to {back[1]!r}, the named class is {mods[-1]}.Fast",
                    {"class_path": mods[-1] + ".Fast", "variant": variant})
            init = outcome(parser.instantiate_classes, res[1])
            ok = init[0] == "ok" and type(init[1].codec) is Fast and getattr(init[1].codec, "window", None) == 8
            h.check(ok, key + ":instance", f"instantiate_classes -> {init[0]} {type(init[1].codec).__module__ + '.' + type(init[1].codec).__name__ if init[0] == 'ok' else init[1:3]}", {"variant": variant})
            h.nontrivial(key)


def worker(case):
    try:
        return {"A": run_partA, "B": run_partB, "C": run_partC, "D": run_partD}[case["part"]](case)
    except Exception as ex:  # noqa  - a crash of the harness itself must be visible, never silent
        import traceback

        return [("check", False, K("harness-error", case["id"]), "the harness raised: " + traceback.format_exc()[-600:], None)]


def main():
    h = Harness("b14_class_path", rule="Part A: each model configuration (class family of bounded/gen_j.py at 11 declared types) x each notation that can express it; "
                "non-trivial = distinct (validity, configuration, notation) actually parsed. Part B: each sequence of 2-3 (channel, class, arguments) steps; "
                "non-trivial = distinct sequence reaching a verdict. Part C: nested class changes and import paths of instances. "
                "One evaluation = one asserted clause (rejection of an invalid value / configuration equality / object tree vs. constructor log / ...)")
    cases = partA_cases(h.thorough) + partB_cases(h.thorough) + partC_cases(h.thorough) + partD_cases(h.thorough)
    if h.thorough:
        # seeded extension: random pairs of flat specs in List / Holder positions
        flat = [s for s in flat_specs(True) if s["cls"] in G.MODEL and not any(isinstance(v, Bad) and v.tag == "null" for v in s.get("args", {}).values())]
        for i in range(1200):
            a, b = h.rng.choice(flat), h.rng.choice(flat)
            which = h.rng.choice(["ListBase", "Holder", "Multi"])
            if which == "ListBase":
                value = [a, b]
            elif which == "Holder":
                value = S("Holder", child=a, opt=b)
            else:
                value = S("Multi", many=[a], either=b)
            cases.append({"part": "A", "decl": which, "value": value, "id": G.short_key(f"A:{which}:{G.label(value)}"), "notations": None})
        # seeded random 3-4 step class-change sequences
        chans = ["cfg", "json", "dotted"]
        for i in range(1200):
            n = h.rng.choice([3, 4])
            steps, c = [], None
            for j in range(n):
                named = j == 0 or h.rng.random() < 0.75
                if named:
                    c = h.rng.choice(FLAT)
                pool = ARGS1[c] + ARGS2[c] + ([ARGS2_BAD[c]] if h.rng.random() < 0.15 else [])
                ch = h.rng.choice((["default", "env"] if j == 0 else []) + chans)
                steps.append(step(ch, c if named else None, h.rng.choice(pool)))
            if steps[0]["ch"] == "default" and steps[0]["cls"] == "SubReq" and "r" not in steps[0]["args"]:
                continue
            lab = "+".join(f"{s['ch']}[{s['cls'] or ''}({','.join(f'{k}={v}' for k, v in s['args'].items())}{';' + ','.join(s['kw']) if s['kw'] else ''})]" for s in steps)
            cases.append({"part": "B", "decl": "Base", "steps": steps, "id": G.short_key(f"B:Base:{lab}"), "tag": "random"})
    n = G.run_cases(h, cases, worker)
    if not h.only:
        run_partE(h)
    kinds = {"valid": 0, "invalid": 0, "accepted": 0, "rejected": 0}
    for sig in h.distinct:
        if isinstance(sig, tuple) and len(sig) > 1 and sig[1] in kinds:
            kinds[sig[1]] += 1
    # vacuity guards
    if not h.only:
        h.check(kinds["valid"] > 0 and kinds["invalid"] > 0, "b14:vacuous:partA", f"accepted and rejected inputs must both occur: {kinds}")
        h.check(kinds["accepted"] > 0 and kinds["rejected"] > 0, "b14:vacuous:partB", f"accepted and rejected sequences must both occur: {kinds}")
    h.note(f"cases run: {n}; Part A notation runs valid/invalid = {kinds['valid']}/{kinds['invalid']}; Part B sequences accepted/rejected = {kinds['accepted']}/{kinds['rejected']}")
    bound = ("class family of 14 classes (one with a dotted qualified name) + 4 factories + 10 non-class/unimportable paths + bare names of foreign/abstract classes; declared types Base, Optional, Union (both orders), abstract base, unrelated, "
             "List, Dict, Holder (1 level), Deep (2 levels), Multi (List/Dict/Union parameters); <= 1 invalid position per configuration (all depths); "
             "2 valid and up to 5 ill-typed values per scalar parameter; <= 10 notations; class changes: all ordered pairs of 6 classes x 2x2 argument sets x 12 channel "
             "pairs" + (" (every fourth combination in the quick tier)" if not h.thorough else " + 1200 seeded random compositions + 1200 seeded random 3-4 step sequences") + "; 3-step sequences; 23 nested sequences; multi-component parser: 5 x 2 x 3 x 2 x 3 component configurations" + (" (every seventh)" if not h.thorough else "") + " + 7 invalid")
    sys.exit(h.finish(exhaustive=True, bound=bound))


if __name__ == "__main__":
    main()
