"""Shared pieces of the C03 / C06 bounded harnesses (b03_*, b06_*): importable class families and a runner that keeps
the full error text, stderr and a per-call time limit.

The classes deliberately have NO `**kwargs`: every accepted key of every class is written down in its signature, so the
harness knows by construction (not by asking jsonargparse) which keys are defined at which level.
"""
import contextlib
import contextvars
import enum
import io
import os
import signal
import sys
import traceback
from dataclasses import dataclass, field
from typing import Optional

MOD = __name__


# ------------------------------------------------------------------ class families (no **kwargs anywhere)
@dataclass
class Inner:
    p: int = 1
    q: Optional[int] = None


@dataclass
class DC:
    x: int
    y: str = "y"
    inner: Inner = field(default_factory=Inner)


@dataclass
class DCO:
    """a required field whose type admits null"""

    o: Optional[int]
    n: int = 0


class Base:
    def __init__(self, req: int, opt: str = "o"):
        self.req, self.opt = req, opt


class Leaf(Base):
    def __init__(self, req: int, n: int = 0):
        super().__init__(req)
        self.n = n


class Sub(Base):
    def __init__(self, req: int, opt: str = "o", child: Optional[Base] = None, dc: Optional[DC] = None):
        super().__init__(req, opt)
        self.child, self.dc = child, dc


class OptReq(Base):
    """a required parameter whose type admits null"""

    def __init__(self, req: int, oreq: Optional[int], z: int = 0):
        super().__init__(req)
        self.oreq = oreq


class Color(enum.Enum):
    red = 1
    blue = 2


def func(fa: int, fb: str = "b", fdc: Optional[DC] = None):
    return (fa, fb, fdc)


def not_a_class():
    return 1


NOT_CALLABLE = 5


def cp(name):
    return f"{MOD}.{name}"


# ------------------------------------------------------------------ runner
class Timeout(BaseException):
    pass


def _alarm(signum, frame):
    raise Timeout()


def run(fn, *args, limit=20, stdin="", **kw):
    """Run fn(*args, **kw) with output captured.

    Returns a dict: kind in {"ok","exc","exit","timeout"}, value | (cls, msg, site) | code, plus out/err texts.
    `site` is module.function of the innermost frame of the traceback (stable across line-number changes).
    The time limit is `limit` seconds of CPU time of this process (independent of machine load), backed by 15 x limit
    seconds of wall time for calls that block without computing.
    """
    out, err = io.StringIO(), io.StringIO()
    old_stdin = sys.stdin
    sys.stdin = io.StringIO(stdin)
    old_handler = signal.signal(signal.SIGALRM, _alarm)
    old_vhandler = signal.signal(signal.SIGVTALRM, _alarm)
    signal.alarm(limit * 15)
    signal.setitimer(signal.ITIMER_VIRTUAL, limit)
    res = {}
    try:
        try:
            with contextlib.redirect_stdout(out), contextlib.redirect_stderr(err):
                try:
                    # a copy of the context: ContextVar changes of an interrupted or failed call cannot leak into the next call
                    res = {"kind": "ok", "value": contextvars.copy_context().run(fn, *args, **kw)}
                except SystemExit as ex:
                    res = {"kind": "exit", "code": ex.code}
                except Timeout:
                    res = {"kind": "timeout"}
                except BaseException as ex:  # noqa
                    tb = traceback.extract_tb(ex.__traceback__)
                    site = "?"
                    if tb:
                        fr = tb[-1]
                        site = os.path.splitext(os.path.basename(fr.filename))[0] + "." + fr.name
                    res = {"kind": "exc", "cls": type(ex).__name__, "msg": str(ex), "site": site, "exc": ex}
        except Timeout:  # raised between the inner handlers and the end of the with block
            res = {"kind": "timeout"}
    finally:
        signal.setitimer(signal.ITIMER_VIRTUAL, 0)
        signal.alarm(0)
        signal.signal(signal.SIGALRM, old_handler)
        signal.signal(signal.SIGVTALRM, old_vhandler)
        sys.stdin = old_stdin
    res["out"], res["err"] = out.getvalue(), err.getvalue()
    return res


def brief(res, n=160):
    if res["kind"] == "ok":
        return "ok"
    if res["kind"] == "exit":
        return f"exit({res['code']})"
    if res["kind"] == "timeout":
        return "timeout"
    return f"{res['cls']}@{res['site']}: {res['msg'][:n]}"
