"""Shared class families for the C14 / C15 bounded harnesses (b14_*, b15_*).

Every constructor records itself in LOG, so that a harness can tell how often, in which order and with which effective
arguments each object was built.  A record is (id(self), owner class name, type(self).__name__, effective arguments).
The MODEL table below is the harness' own description of the classes (parameters, defaults, value predicates); it is
written by hand from the class definitions and never obtained from jsonargparse.
"""
import abc
from typing import Any, Dict, List, Optional, Union

LOG: list = []
MOD = __name__


def _rec(self, owner, args):
    args = {k: v for k, v in args.items() if k not in ("self", "__class__")}
    kw = args.pop("kwargs", None)
    if isinstance(kw, dict):
        args.update(kw)
    LOG.append((id(self), owner, type(self).__name__, args, self))


# ------------------------------------------------------------------ the family
class Base:
    def __init__(self, a: int = 1, s: str = "x"):
        _rec(self, "Base", locals())
        self.a, self.s = a, s


class SubAdd(Base):
    """adds a parameter, forwards the rest"""

    def __init__(self, b: float = 0.5, **kwargs):
        _rec(self, "SubAdd", {"b": b})
        super().__init__(**kwargs)
        self.b = b


class SubOver(Base):
    """overrides the type of `a`, drops `s`, adds `c`"""

    def __init__(self, a: str = "over", c: bool = False):
        _rec(self, "SubOver", locals())
        self.a, self.c = a, c


class SubReq(Base):
    """a required parameter"""

    def __init__(self, r: int, a: int = 2):
        _rec(self, "SubReq", locals())
        self.r, self.a = r, a


class SubKw(Base):
    """free keyword arguments (the dict_kwargs door)"""

    def __init__(self, a: int = 7, **kwargs):
        _rec(self, "SubKw", locals())
        self.a, self.kwargs = a, kwargs


class Outer:
    """only a namespace: the class below has a dotted qualified name"""

    class Inner(Base):
        def __init__(self, i: int = 0, **kwargs):
            _rec(self, "Inner", {"i": i})
            super().__init__(**kwargs)
            self.i = i


class Unrelated:
    def __init__(self, a: int = 1, u: int = 0):
        _rec(self, "Unrelated", locals())
        self.a, self.u = a, u


class AbsBase(abc.ABC):
    def __init__(self, k: int = 4):
        _rec(self, "AbsBase", locals())
        self.k = k

    @abc.abstractmethod
    def run(self): ...


class Concrete(AbsBase):
    def __init__(self, m: str = "m", **kwargs):
        _rec(self, "Concrete", {"m": m})
        super().__init__(**kwargs)
        self.m = m

    def run(self):
        return self.m


class StillAbs(AbsBase):
    """abstract subclass: a subclass of AbsBase that cannot be instantiated"""

    def __init__(self, z: int = 0):
        _rec(self, "StillAbs", locals())


class Holder:
    """nested class-typed parameters"""

    def __init__(self, child: Base, opt: Optional[Base] = None, n: int = 0):
        _rec(self, "Holder", locals())
        self.child, self.opt, self.n = child, opt, n


class HolderSub(Holder):
    def __init__(self, extra: Unrelated = None, **kwargs):  # type: ignore[assignment]
        _rec(self, "HolderSub", {"extra": extra})
        super().__init__(**kwargs)
        self.extra = extra


class Multi:
    """List / Dict / Union of class parameters"""

    def __init__(self, many: Optional[List[Base]] = None, byname: Optional[Dict[str, Base]] = None,
                 either: Union[Base, Unrelated, None] = None):
        _rec(self, "Multi", locals())
        self.many, self.byname, self.either = many, byname, either


class Deep:
    """two levels of nesting"""

    def __init__(self, holder: Holder, tag: str = "t"):
        _rec(self, "Deep", locals())
        self.holder, self.tag = holder, tag


def make_base(a: int = 3) -> Base:
    _rec(None, "make_base", locals())
    return Base(a=a, s="made")


def make_sub(b: float = 2.5) -> SubAdd:
    _rec(None, "make_sub", locals())
    return SubAdd(b=b)


def make_unrelated(a: int = 3) -> Unrelated:
    _rec(None, "make_unrelated", locals())
    return Unrelated(a=a)


def make_untyped(a: int = 3):
    _rec(None, "make_untyped", locals())
    return Base(a=a)


NOT_A_CLASS = 5
A_DICT = {"class_path": "x"}


BASE_INSTANCE = Base(a=42, s="inst")  # an importable *instance* of Base
del LOG[:]


# ====================================================================== independent model of the family
# Nothing below calls into jsonargparse.  The tables are written by hand from the class definitions above.
REQUIRED = "<required>"


class Bad:
    """An ill-typed / foreign value injected at one position: how it is written in JSON and on the command line."""

    def __init__(self, tag, json_value, argv=None):
        self.tag, self.json_value, self.argv = tag, json_value, argv

    def __repr__(self):
        return f"Bad({self.tag})"


def P(kind, default=REQUIRED, of=(), optional=False):
    return {"kind": kind, "default": default, "of": tuple(of), "optional": optional}


_BASE = {"a": P("int", 1), "s": P("str", "x")}
_HOLDER = {"child": P("cls", REQUIRED, ("Base",)), "opt": P("cls", None, ("Base",), True), "n": P("int", 0)}
# name -> parameters in signature order, whether free **kwargs are accepted, return class for factories
MODEL: Dict[str, Dict[str, Any]] = {
    "Base": {"params": dict(_BASE)},
    "SubAdd": {"params": {"b": P("float", 0.5), **_BASE}},
    "SubOver": {"params": {"a": P("str", "over"), "c": P("bool", False)}},
    "SubReq": {"params": {"r": P("int"), "a": P("int", 2)}},
    "SubKw": {"params": {"a": P("int", 7)}, "kw": True},
    "Inner": {"params": {"i": P("int", 0), **_BASE}},
    "Unrelated": {"params": {"a": P("int", 1), "u": P("int", 0)}},
    "AbsBase": {"params": {"k": P("int", 4)}, "abstract": True},
    "Concrete": {"params": {"m": P("str", "m"), "k": P("int", 4)}},
    "StillAbs": {"params": {"z": P("int", 0)}, "abstract": True},
    "Holder": {"params": dict(_HOLDER)},
    "HolderSub": {"params": {"extra": P("cls", None, ("Unrelated",), True), **_HOLDER}},
    "Multi": {"params": {"many": P("list", None, ("Base",), True), "byname": P("dict", None, ("Base",), True),
                         "either": P("cls", None, ("Base", "Unrelated"), True)}},
    "Deep": {"params": {"holder": P("cls", REQUIRED, ("Holder",)), "tag": P("str", "t")}},
    "make_base": {"params": {"a": P("int", 3)}, "returns": "Base"},
    "make_sub": {"params": {"b": P("float", 2.5)}, "returns": "SubAdd"},
    "make_unrelated": {"params": {"a": P("int", 3)}, "returns": "Unrelated"},
}
CLASSES = {c.__name__: c for c in (Base, SubAdd, SubOver, SubReq, SubKw, Outer.Inner, Unrelated, AbsBase, Concrete, StillAbs, Holder,
                                   HolderSub, Multi, Deep)}
FACTORIES = {"make_base": make_base, "make_sub": make_sub, "make_unrelated": make_unrelated, "make_untyped": make_untyped}
MISSING = "<missing>"


def path(name):
    return f"{MOD}.{name}"


# things a class_path can name: label -> (string written by the user, what it imports to)
IMPORTS: Dict[str, Any] = {n: (f"{MOD}.{c.__qualname__}", c) for n, c in CLASSES.items()}
IMPORTS.update({n: (path(n), f) for n, f in FACTORIES.items()})
IMPORTS.update({
    "NOT_A_CLASS": (path("NOT_A_CLASS"), NOT_A_CLASS),
    "A_DICT": (path("A_DICT"), A_DICT),
    "no_attr": (path("nope"), MISSING),
    "no_module": ("nomod_j.X", MISSING),
    "a_module": ("os.path", __import__("os").path),
    "builtin_int": ("builtins.int", int),
    "dict_cls": ("builtins.dict", dict),
    "bare_unknown": ("Nowhere", MISSING),
    "empty": ("", MISSING),
    "number": ("12", MISSING),
})
for _n in CLASSES:
    IMPORTS["bare:" + _n] = (_n, MISSING)  # bare name, used where it is *not* resolvable (foreign family / abstract)


def conforms(name, of):
    """Does the thing called `name` import to a subclass of one of the classes `of`, or to a callable returning one?"""
    import inspect

    obj = IMPORTS[name][1]
    if obj is MISSING:
        return False
    targets = tuple(CLASSES[t] for t in of)
    if inspect.isclass(obj):
        return issubclass(obj, targets)
    if inspect.isfunction(obj):
        ret = obj.__annotations__.get("return")
        return inspect.isclass(ret) and issubclass(ret, targets)
    return False


def short_resolvable(name, of):
    """A bare class name may be used for a concrete class below the declared class(es)."""
    return name in CLASSES and conforms(name, of) and not MODEL[name].get("abstract")


_SCALAR = {
    "int": lambda v: isinstance(v, int) and not isinstance(v, bool),
    "float": lambda v: isinstance(v, (int, float)) and not isinstance(v, bool),
    "str": lambda v: isinstance(v, str),
    "bool": lambda v: isinstance(v, bool),
}


NULL_OK = []  # non-empty while asking "would this be valid if null were allowed for scalars?"


def valid_but_for_null(pd, value):
    NULL_OK.append(1)
    try:
        return valid(pd, value) is True
    finally:
        NULL_OK.pop()


def valid(pd, value):
    """True / False; None = outside the asserted region (free kwargs handed to a class that does not take them)."""
    kind = pd["kind"]
    if isinstance(value, Bad):
        return bool(NULL_OK) and value.tag == "null" and kind in _SCALAR
    if value is None:
        return bool(pd["optional"])
    if kind in _SCALAR:
        return _SCALAR[kind](value)
    if kind == "cls":
        return valid_spec(value, pd["of"])
    if kind == "list":
        if not isinstance(value, list):
            return False
        return _all(valid_spec(v, pd["of"]) for v in value)
    if kind == "dict":
        if not isinstance(value, dict) or "cls" in value:
            return False
        return _all(valid_spec(v, pd["of"]) for v in value.values())
    raise AssertionError(kind)


def _all(results):
    results = list(results)
    if any(r is False for r in results):
        return False
    if any(r is None for r in results):
        return None
    return True


def valid_spec(spec, of):
    if not (isinstance(spec, dict) and "cls" in spec):
        return False
    name = spec["cls"]
    if not conforms(name, of):
        return False
    model = MODEL[name]
    args = spec.get("args", {})
    res = []
    for k, v in args.items():
        if k not in model["params"]:
            return False
        res.append(valid(model["params"][k], v))
    for k, pd in model["params"].items():
        if pd["default"] == REQUIRED and k not in args:
            return False
    if spec.get("kw"):
        if any(k in model["params"] for k in spec["kw"]):
            res.append(None)  # a declared parameter passed through dict_kwargs: moved to init_args, not modelled
        elif not model.get("kw"):
            res.append(None)
    return _all(res)


def instantiable(value):
    if isinstance(value, dict) and "cls" in value:
        if MODEL.get(value["cls"], {}).get("abstract"):
            return False
        return all(instantiable(v) for v in value.get("args", {}).values())
    if isinstance(value, dict):
        return all(instantiable(v) for v in value.values())
    if isinstance(value, list):
        return all(instantiable(v) for v in value)
    return True


def expected(pd, value):
    """The configuration a *valid* model value denotes: explicit class paths, every default filled in."""
    kind = pd["kind"]
    if value is None:
        return None
    if kind == "float":
        return float(value)
    if kind in _SCALAR:
        return value
    if kind == "cls":
        return expected_spec(value)
    if kind == "list":
        return [expected_spec(v) for v in value]
    if kind == "dict":
        return {k: expected_spec(v) for k, v in value.items()}
    raise AssertionError(kind)


def expected_spec(spec):
    name = spec["cls"]
    model = MODEL[name]
    args = spec.get("args", {})
    init = {}
    for k, pd in model["params"].items():
        init[k] = expected(pd, args[k] if k in args else pd["default"])
    out = {"class_path": IMPORTS[name][0], "init_args": init}
    if spec.get("kw"):
        out["dict_kwargs"] = dict(spec["kw"])
    return out


def label(value):
    if isinstance(value, Bad):
        return "!" + value.tag
    if value is None:
        return "~"
    if isinstance(value, dict) and "cls" in value:
        inner = ",".join(f"{k}={label(v)}" for k, v in value.get("args", {}).items())
        if value.get("kw"):
            inner += ";" + ",".join(f"{k}={label(v)}" for k, v in value["kw"].items())
        return f"{value['cls']}({inner})" if inner else value["cls"]
    if isinstance(value, dict):
        return "{" + ",".join(f"{k}:{label(v)}" for k, v in value.items()) + "}"
    if isinstance(value, list):
        return "[" + ",".join(label(v) for v in value) + "]"
    return str(value)


def short_key(text, limit=140):
    if len(text) <= limit:
        return text
    import hashlib

    return text[: limit - 10] + "#" + hashlib.md5(text.encode()).hexdigest()[:8]


# ---------------------------------------------------------------------- notations
def render_json(value, pd=None, short=False):
    """Explicit form (short=False) or bare-class-name form (short=True) as a JSON-able object."""
    if isinstance(value, Bad):
        return value.json_value
    if isinstance(value, dict) and "cls" in value:
        name = value["cls"]
        cp = IMPORTS[name][0]
        of = pd["of"] if pd else ()
        if short and short_resolvable(name, of):
            cp = name
        model = MODEL.get(name, {"params": {}})
        out = {"class_path": cp}
        args = value.get("args", {})
        if args:
            out["init_args"] = {k: render_json(v, model["params"].get(k), short) for k, v in args.items()}
        if value.get("kw"):
            out["dict_kwargs"] = dict(value["kw"])
        if short and len(out) == 1:
            return cp
        return out
    if isinstance(value, dict):
        return {k: render_json(v, pd, short) for k, v in value.items()}
    if isinstance(value, list):
        return [render_json(v, pd, short) for v in value]
    return value


def argv_scalar(v):
    if isinstance(v, Bad):
        return v.argv
    if v is None:
        return "null"
    if isinstance(v, bool):
        return "true" if v else "false"
    return str(v)


def render_dotted(prefix, value, pd=None, ia=False):
    """Dotted sub-options; None when the value cannot be written this way."""
    import json

    sep = ".init_args." if ia else "."
    if isinstance(value, dict) and "cls" in value:
        name = value["cls"]
        of = pd["of"] if pd else ()
        cp = name if short_resolvable(name, of) else IMPORTS[name][0]
        out = [f"--{prefix}={cp}"]
        model = MODEL.get(name, {"params": {}})
        for k, v in value.get("args", {}).items():
            sub = render_dotted(f"{prefix}{sep}{k}", v, model["params"].get(k), ia)
            if sub is None:
                return None
            out += sub
        for k, v in (value.get("kw") or {}).items():
            out.append(f"--{prefix}.dict_kwargs.{k}={argv_scalar(v)}")
        return out
    if isinstance(value, list):
        out = []
        for item in value:
            sub = render_dotted(prefix, item, pd, ia)
            if sub is None:
                return None
            out += [sub[0].replace(f"--{prefix}=", f"--{prefix}+=", 1)] + sub[1:]
        return out or [f"--{prefix}=[]"]
    if isinstance(value, dict):
        return [f"--{prefix}={json.dumps(render_json(value, pd))}"]
    s = argv_scalar(value)
    return None if s is None else [f"--{prefix}={s}"]


# ---------------------------------------------------------------------- what was built
def plain(v):
    """Parse result -> plain python containers (Namespace -> dict)."""
    if hasattr(v, "as_dict") and hasattr(v, "__dict__") and type(v).__name__ == "Namespace":
        return {k: plain(x) for k, x in vars(v).items()}
    if isinstance(v, dict):
        return {k: plain(x) for k, x in v.items()}
    if isinstance(v, list):
        return [plain(x) for x in v]
    return v


def check_built(obj, cfg, log, problems, where="x"):
    """Compare an instantiated object tree with the configuration `cfg` (plain dicts) using the constructor log.

    Returns the index of the last log record that belongs to the subtree (for the built-before check)."""
    if isinstance(cfg, dict) and "class_path" in cfg:
        cp = cfg["class_path"]
        name = cp.rsplit(".", 1)[-1]
        init = cfg.get("init_args", {}) or {}
        kw = cfg.get("dict_kwargs", {}) or {}
        if name in FACTORIES:
            want = {**init, **kw}
            calls = [i for i, r in enumerate(log) if r[1] == name and r[4] is None]
            recs = [i for i in calls if log[i][3] == want]
            if not recs:  # (the number of factory calls is compared with the number of factory nodes by the caller)
                problems.append((where, "args", f"factory {name} called with {[log[i][3] for i in calls]}, configured {want}"))
                return -1
            ret = CLASSES[MODEL[name]["returns"]]
            if not isinstance(obj, ret):
                problems.append((where, "type", f"factory result is {type(obj).__name__}"))
            return max(i for i, r in enumerate(log) if r[0] == id(obj)) if any(r[0] == id(obj) for r in log) else recs[0]
        cls = CLASSES.get(name)
        if cls is None or type(obj) is not cls:
            problems.append((where, "type", f"type(obj) is {type(obj).__name__}, class_path names {cp}"))
            return -1
        mine = [i for i, r in enumerate(log) if r[0] == id(obj)]
        own = [i for i in mine if log[i][1] == name]
        if len(own) != 1:
            problems.append((where, "once", f"{name} constructed {len(own)} times"))
            if not own:
                return -1
        eff = {}
        for i in mine:
            eff.update(log[i][3])
        want_keys = set(init) | set(kw)
        if set(eff) != want_keys:
            problems.append((where, "args", f"{name} received parameters {sorted(eff)}, configured {sorted(want_keys)}"))
        first = min(mine)
        last = max(mine)
        for k in sorted(want_keys & set(eff)):
            v = kw[k] if k in kw else init[k]
            got = eff[k]
            sub_last = check_value(got, v, log, problems, f"{where}.{k}")
            if sub_last is not None and sub_last >= first:
                problems.append((f"{where}.{k}", "order", f"nested object was not built before {name}"))
        return last
    return check_value(obj, cfg, log, problems, where)


def check_value(got, cfg, log, problems, where):
    if isinstance(cfg, dict) and "class_path" in cfg:
        return check_built(got, cfg, log, problems, where)
    if isinstance(cfg, list):
        if not isinstance(got, list) or len(got) != len(cfg):
            problems.append((where, "args", f"list {got!r} does not match configured {cfg!r}"))
            return None
        lasts = [check_value(g, c, log, problems, f"{where}[{i}]") for i, (g, c) in enumerate(zip(got, cfg))]
        lasts = [x for x in lasts if x is not None]
        return max(lasts) if lasts else None
    if isinstance(cfg, dict):
        if not isinstance(got, dict) or set(got) != set(cfg):
            problems.append((where, "args", f"dict {got!r} does not match configured {cfg!r}"))
            return None
        lasts = [check_value(got[k], cfg[k], log, problems, f"{where}[{k}]") for k in cfg]
        lasts = [x for x in lasts if x is not None]
        return max(lasts) if lasts else None
    if type(got) is not type(cfg) or got != cfg:
        problems.append((where, "args", f"received {got!r}, configured {cfg!r}"))
    return None


def count_specs(cfg):
    """(number of class nodes, number of factory nodes) in a plain configuration."""
    if isinstance(cfg, dict) and "class_path" in cfg:
        name = cfg["class_path"].rsplit(".", 1)[-1]
        c, f = (0, 1) if name in FACTORIES else (1, 0)
        for v in (cfg.get("init_args") or {}).values():
            c2, f2 = count_specs(v)
            c, f = c + c2, f + f2
        return c, f
    if isinstance(cfg, dict):
        vals = list(cfg.values())
    elif isinstance(cfg, list):
        vals = cfg
    else:
        return 0, 0
    c = f = 0
    for v in vals:
        c2, f2 = count_specs(v)
        c, f = c + c2, f + f2
    return c, f


def factory_calls(log):
    return sum(1 for r in log if r[4] is None)


def constructions(log):
    """Number of objects whose own constructor ran (one record per object at its own class level)."""
    return sum(1 for r in log if r[4] is not None and r[1] == r[2])


# ---------------------------------------------------------------------- deterministic fan-out over processes
def run_cases(h, cases, worker, procs=12, chunk=4):
    """worker(case) -> list of events ('check', ok, key, what, case) | ('nt', sig) | ('sample', obj) | ('note', text).

    Events are replayed into the harness in case order, so the result does not depend on scheduling."""
    import multiprocessing as mp
    import os

    cases = list(cases)
    if h.only:
        # replay: the case whose id is part of the given violation key (keys that do not embed an id run everything)
        cases = [c for c in cases if c["id"] in h.only] or cases
    n = max(1, min(procs, 16, os.cpu_count() or 1, len(cases)))
    if n == 1:
        results = map(worker, cases)
    else:
        pool = mp.get_context("fork").Pool(n)
        try:
            results = pool.imap(worker, cases, chunksize=chunk)
            results = list(results)
        finally:
            pool.close()
            pool.join()
    notes = {}
    for events in results:
        for ev in events:
            if ev[0] == "check":
                h.check(ev[1], ev[2], ev[3], ev[4])
            elif ev[0] == "nt":
                h.nontrivial(ev[1])
            elif ev[0] == "sample":
                h.sample(ev[1])
            elif ev[0] == "note":
                notes[ev[1]] = notes.get(ev[1], 0) + 1
    for text, count in notes.items():
        h.note(f"{text} (x{count})")
    return len(cases)
