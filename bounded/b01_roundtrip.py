"""C01 bounded stand-in: a dumped configuration re-parses to the same configuration.

Contract (evaluated on the real ArgumentParser.dump / parse_string / parse_args --print_config / save / parse_path):
for every parser P of the grammar and every configuration c that P returned from a parse method,
    snap(P.parse_string(P.dump(c, format=f, skip_none=False[, skip_default=True][, yaml_comments=True]))) == snap(c)
    snap(P.parse_args(['--cfg', file holding the stdout of P.parse_args(args + ['--print_config[=flags]'])])) == snap(P.parse_args(args))
    P.save(c, path, format=f, skip_none=False, multifile=m); snap(P.parse_path(path)) == snap(c)
where snap is the typed structural snapshot of gen_d (value for value, type for type; meta keys and the config-file
action's own entry are left out).  f ranges over yaml/json/json_indented for yaml-mode parsers and over
json/json_indented/parser_mode for json-mode parsers (a json reader is not asked to read yaml).

Canonical violation keys: c01:<format family>:<what changed>:<the leaf that changed>  - the same leaf failing the same way
through another route (print_config, save, skip_default, another parser shape or enclosing type) is the same key; a route
that fails where the plain dump of the same configuration does not gets a key naming the route.
"""
import os
import re
import sys
import tempfile

from bounded.common import Harness, outcome, quiet
from bounded.gen_d import (
    SHAPES,
    Recorder,
    build,
    first_diff,
    has_none_in_container,
    jsonable,
    leaf_label,
    make_files,
    make_types,
    none_paths,
    render_arg,
    run_units,
    short,
    snap,
    strings_in,
)

EXCLUDE = {"SecretStr"}  # masked on purpose when dumped (C20's clause), so not a round-trip type

# spellings a YAML 1.1/1.2 reader may resolve to a float/int/bool/null - used only to NAME the suspect leaf in the key
# of a failure whose re-parse raised (there is no result to diff), never to decide pass/fail
AMBIG = re.compile(
    r"^(?:[-+]?(?:\.[0-9_]+|[0-9][0-9_]*(?:\.[0-9_]*)?)(?:[eE][-+]?[0-9]+)?|[-+]?\.(?:inf|Inf|INF)|\.(?:nan|NaN|NAN)|[-+]?[0-9][0-9_]*(?::[0-5]?[0-9])+(?:\.[0-9_]*)?"
    r"|0x[0-9a-fA-F_]+|0o?[0-7_]+|0b[01_]+|~|null|Null|NULL|true|True|TRUE|false|False|FALSE|yes|Yes|YES|no|No|NO|on|On|ON|off|Off|OFF|y|Y|n|N|)$"
)


def family(fmt):
    return "json" if fmt.startswith("json") or fmt == "parser_mode:json" else "yaml"


def describe(s0, back, fam):
    """None if the re-parse `back` (an outcome tuple) equals the snapshot s0, else (kind:leaf, explanation)."""
    if back[0] == "ok":
        d = first_diff(s0, snap(back[1], drop=("cfg",)))
        if d is None:
            return None
        path, kind, a, b = d
        return f"{kind}:{leaf_label(a if a is not None else b)}", f"at {path or '.'}: {a!r} came back as {b!r}"
    why = "raises:" + back[1] if back[0] == "exc" else f"exit:{back[1]}"
    leaves = strings_in(s0)
    if fam == "json":
        sus = [(k, s) for k, s in leaves if k == "float" and s in ("nan", "inf", "-inf")]
    else:
        sus = [(k, s) for k, s in leaves if k in ("str", "enum", "path") and AMBIG.match(s)]
        sus.sort(key=lambda ks: not re.search(r"[0-9_]", ks[1]))  # number-like first
    if sus:
        return f"{sus[0][0]}>{why}:{short(sus[0][1])}", f"re-parse failed: {back[1:]}"
    return f"{why}:{short([s for _, s in leaves][:3])}", f"re-parse failed: {back[1:]}"


class Ctx:
    def __init__(self, rec, B, ts, default_label, mode):
        self.rec, self.B, self.ts, self.default_label, self.mode = rec, B, ts, default_label, mode
        self.n = 0

    def case(self, inp, extra=None):
        c = {"parser": f"shape={self.B.shape} type={self.ts.name} default={self.default_label} parser_mode={self.mode}", "input": inp}
        if extra:
            c.update(extra)
        return c


def msgsig(msg):
    """Signature of an exception message with the quoted / numeric parts (values, addresses) removed."""
    import zlib

    norm = re.sub(r"'[^']*'|\"[^\"]*\"|[0-9]+", "", str(msg))[:200]
    return format(zlib.crc32(norm.encode("utf-8", "backslashreplace")) & 0xFFFFFF, "06x")


def failkey(cx, fam, route, res):
    """Key of a failing dump/save/print call: names the route, the exception and the parser shape - not the value, because
    such a failure is usually independent of the value; the message signature keeps different failures apart."""
    what = res[1] if res[0] == "exc" else f"exit{res[1]}"
    return f"c01:{fam}:{route + ':' if route else ''}{what}:{cx.B.shape}/{cx.default_label}:{msgsig(res[2] if len(res) > 2 else '')}"


def formats(mode):
    return ["yaml", "json", "json_indented"] if mode == "yaml" else ["json", "json_indented", "parser_mode"]


def check_dumps(cx: Ctx, cfg, s0, inp, thorough, comments=False):
    """dump -> parse_string for every format, plus skip_default and yaml_comments. Returns {format family: failure kind}."""
    p, rec = cx.B.parser, cx.rec
    base = {}
    for fmt in formats(cx.mode):
        fam = "json" if fmt != "yaml" else "yaml"
        text = outcome(p.dump, cfg, format=fmt, skip_none=False)
        if text[0] != "ok":
            rec.check(False, failkey(cx, fam, "dump", text), f"dump of an accepted configuration failed: {text[1:]}", cx.case(inp, {"format": fmt}))
            base[fam] = "dump-failed"
            continue
        back = outcome(p.parse_string, text[1])
        bad = describe(s0, back, fam)
        base.setdefault(fam, bad[0] if bad else None)
        rec.check(bad is None, f"c01:{fam}:{bad[0]}" if bad else "", bad[1] if bad else "", cx.case(inp, {"format": fmt, "dump": text[1][:300]}))
    variants = [("skip_default", dict(skip_default=True))]
    if comments and cx.mode == "yaml":
        variants += [("comments", dict(yaml_comments=True)), ("comments+skip_default", dict(yaml_comments=True, skip_default=True))]
    fmts = formats(cx.mode) if thorough else formats(cx.mode)[:1]
    for vname, kw in variants:
        for fmt in fmts:
            if "yaml_comments" in kw and fmt != "yaml":
                continue
            fam = "json" if fmt != "yaml" else "yaml"
            text = outcome(p.dump, cfg, format=fmt, skip_none=False, **kw)
            if text[0] != "ok":
                same = base.get(fam) == "dump-failed"
                rec.check(False, failkey(cx, fam, "dump" if same else "dump:" + vname.replace("comments+", ""), text),
                          f"dump({vname}) of an accepted configuration failed: {text[1:]}", cx.case(inp, {"format": fmt, "variant": vname}))
                continue
            back = outcome(p.parse_string, text[1])
            bad = describe(s0, back, fam)
            key = ""
            if bad:
                key = f"c01:{fam}:{bad[0]}" if bad[0] == base.get(fam) else f"c01:{fam}:{vname}:{bad[0]}"
            rec.check(bad is None, key, bad[1] if bad else "", cx.case(inp, {"format": fmt, "variant": vname, "dump": text[1][:300]}))
    return base


def s0_leaf(s0, cx):
    cur = s0
    for part in [x for x in cx.B.leaf.split(".") if x]:
        if cur[0] == "ns":
            cur = dict(cur[1]).get(part, ("None",))
        elif cur[0] == "dict":
            cur = {k[-1]: v for k, v in cur[1]}.get(part, ("None",))
    return cur


PC_FLAGS = ["", "skip_default", "comments", "skip_null", "comments,skip_default"]


def check_print_config(cx: Ctx, args, base_of, thorough, sub=False):
    """stdout of parse_args(args + --print_config[=flags]) -> file -> parse_args(--cfg file) == parse_args(args)."""
    p, rec, B = cx.B.parser, cx.rec, cx.B
    ref = outcome(p.parse_args, list(args))
    vars(p).pop("print_config", None)
    if ref[0] != "ok":
        rec.count("rejected")
        return False
    s0 = snap(ref[1], drop=("cfg",))
    base = base_of(ref[1], s0)
    dflt = outcome(p.get_defaults)
    for flags in PC_FLAGS:
        if cx.mode != "yaml" and "comments" in flags:
            continue
        if "skip_null" in flags:
            # nulls are dropped by this flag: only a lossless request when every null sits where the default is null too
            if dflt[0] != "ok" or has_none_in_container(s0) or not none_paths(s0) <= none_paths(snap(dflt[1], drop=("cfg",))):
                continue
        opt = "--print_config" + ("=" + flags if flags else "")
        if B.shape.startswith("subcmd"):
            argv = (list(args) + [opt]) if sub else ([opt] + list(args))
        else:
            argv = list(args) + [opt]
        code, text, msg = None, "", ""
        try:
            with quiet() as (out, err):
                try:
                    p.parse_args(argv)
                finally:
                    text = out.getvalue()
        except SystemExit as ex:
            code = ex.code
        except BaseException as ex:  # noqa
            code, msg = type(ex).__name__, str(ex)
        vars(p).pop("print_config", None)
        fam = cx.mode
        route = "print_config" + ("/sub" if sub else "") + (":" + flags if flags else "")
        if code != 0:
            res = ("exc", code, msg) if isinstance(code, str) else ("exit", code, "")
            rec.check(False, failkey(cx, fam, route, res), f"--print_config did not print and exit 0 (got {code} {msg[:200]})", cx.case(argv))
            continue
        cx.n += 1
        fname = f"pc{cx.n}.{'yaml' if cx.mode == 'yaml' else 'json'}"
        with open(fname, "w") as f:
            f.write(text)
        back = outcome(p.parse_args, B.sub_cfg_argv(fname) if sub else [f"--cfg={fname}"])
        vars(p).pop("print_config", None)
        os.unlink(fname)
        if sub:
            # the subcommand's parser printed only its own section: compare that section
            bad = describe(s0, back, fam)
        else:
            bad = describe(s0, back, fam)
        key = ""
        if bad:
            key = f"c01:{fam}:{bad[0]}" if bad[0] == base.get(fam) else f"c01:{fam}:{route}:{bad[0]}"
        rec.check(bad is None, key, bad[1] if bad else "", cx.case(argv, {"printed": text[:300]}))
    return True


def check_save(cx: Ctx, cfg, s0, inp, base, thorough):
    p, rec = cx.B.parser, cx.rec
    combos = [("yaml", True), ("json", False)] if cx.mode == "yaml" else [("json", True), ("parser_mode", False)]
    if thorough:
        combos = [(f, m) for f in formats(cx.mode) for m in (True, False)]
    for fmt, multi in combos:
        fam = "json" if fmt != "yaml" else "yaml"
        cx.n += 1
        fname = f"sv{cx.n}.{'yaml' if fmt == 'yaml' else 'json'}"
        res = outcome(p.save, cfg, fname, format=fmt, skip_none=False, multifile=multi)
        route = f"save:{'multi' if multi else 'single'}"
        if res[0] != "ok":
            rec.check(False, failkey(cx, fam, route, res), f"save of an accepted configuration failed: {res[1:]}", cx.case(inp, {"format": fmt}))
        else:
            back = outcome(p.parse_path, fname)
            bad = describe(s0, back, fam)
            key = ""
            if bad:
                key = f"c01:{fam}:{bad[0]}" if bad[0] == base.get(fam) else f"c01:{fam}:{route}:{bad[0]}"
            rec.check(bad is None, key, bad[1] if bad else "", cx.case(inp, {"format": fmt, "multifile": multi}))
        if os.path.exists(fname):
            os.unlink(fname)


# ------------------------------------------------------------------------------------------------ the grid
def inputs_for(ts, B, full):
    vals = ts.vals if full else (ts.core + [v for v in ts.vals[:0]])
    out = [("obj", v) for v in vals]
    if B.argv is not None:
        for v in vals:
            if isinstance(v, str) and "\x00" not in v:
                out.append(("argv", v))
            elif full and ts.depth >= 1 and jsonable(v) and v is not None and not isinstance(v, str):
                out.append(("argv", render_arg(v)))
    return out


def feed(B, inp):
    ch, v = inp
    if ch == "obj":
        return outcome(B.parser.parse_object, B.wrap(v))
    args = B.argv(v)
    if args is None:
        return ("exc", "skip", "")
    res = outcome(B.parser.parse_args, args)
    vars(B.parser).pop("print_config", None)
    return res


def grid_unit(unit):
    section, shape, mode, lo, hi, thorough, maxdepth = unit
    rec = Recorder()
    old = os.getcwd()
    with tempfile.TemporaryDirectory() as td:
        os.chdir(td)
        try:
            make_files()
            types = [t for t in make_types(thorough, maxdepth) if t.name.split("[")[0] not in EXCLUDE and "SecretStr" not in t.name][lo:hi]
            for ts in types:
                for dlabel in ("none", "canon"):
                    default = None if dlabel == "none" else ts.canon
                    if dlabel == "canon" and default is None:
                        continue
                    if shape == "positional" and dlabel == "canon":
                        continue
                    try:
                        B = build(shape, ts, default, mode)
                    except Exception as ex:  # noqa
                        rec.count("parser-not-built")
                        continue
                    cx = Ctx(rec, B, ts, dlabel, mode)
                    full = shape == "flat" or ts.depth == 0
                    seen = set()
                    for inp in inputs_for(ts, B, full):
                        res = feed(B, inp)
                        if res[0] != "ok":
                            rec.count("rejected")
                            continue
                        rec.count("accepted")
                        cfg = res[1]
                        s0 = snap(cfg, drop=("cfg",))
                        if s0 in seen:
                            continue
                        seen.add(s0)
                        label = [inp[0], inp[1]]
                        rec.nontrivial(f"{section}:{shape}:{mode}:{ts.name}:{dlabel}:{short(s0_leaf(s0, cx), limit=60)}")
                        if section == "dump":
                            check_dumps(cx, cfg, s0, label, thorough, comments=(shape in ("flat", "dataclass", "subcmd1") and ts.depth <= 1))
                        elif section == "save":
                            base = quick_base(cx, cfg, s0)
                            check_save(cx, cfg, s0, label, base, thorough)
                        if len(rec.samples) < 1 and ts.depth >= 1:
                            rec.sample({"shape": shape, "type": ts.name, "input": repr(inp[1])[:80]})
                    if section == "print_config" and B.argv is not None:
                        seen_args = set()
                        for ch, v in inputs_for(ts, B, full):
                            if ch != "argv":
                                if not jsonable(v) or v is None or isinstance(v, str):
                                    continue
                                v = render_arg(v)
                            args = B.argv(v)
                            if args is None or tuple(args) in seen_args:
                                continue
                            seen_args.add(tuple(args))
                            for sub in ((False, True) if B.sub_cfg_argv else (False,)):
                                ok = check_print_config(cx, args, lambda cfg, s0: quick_base(cx, cfg, s0), thorough, sub=sub)
                                if ok:
                                    rec.count("accepted")
                                    rec.nontrivial(f"{section}:{shape}:{mode}:{ts.name}:{dlabel}:{sub}:{short(v, limit=60)}")
        finally:
            os.chdir(old)
    return rec


def quick_base(cx, cfg, s0):
    """How the plain dump of this configuration fails (per format family), without recording an evaluation."""
    p = cx.B.parser
    base = {}
    for fmt in ("yaml", "json") if cx.mode == "yaml" else ("json",):
        text = outcome(p.dump, cfg, format=fmt, skip_none=False)
        if text[0] != "ok":
            base[fmt] = "dump-failed"
            continue
        bad = describe(s0, outcome(p.parse_string, text[1]), fmt)
        base[fmt] = bad[0] if bad else None
    return base


def focus_units(thorough):
    return []


def focus_unit(unit):
    return Recorder()


def main():
    h = Harness("b01_roundtrip", rule="parsers = shape x type of G(d) x default in {None, a normalised value} x parser_mode; configurations = every distinct result the parser "
                "returns for the per-type value sets (python objects through parse_object, strings through argv); one evaluation = one (parser, configuration, "
                "route) with route in dump formats x {plain, skip_default, comments}, --print_config flags, save/parse_path; non-trivial = distinct "
                "(section, shape, mode, type, default, resulting leaf value)")
    thorough = h.thorough
    D = 3 if thorough else 2
    ntypes = len([t for t in make_types(thorough, D) if "SecretStr" not in t.name])
    n1 = len([t for t in make_types(thorough, 1) if "SecretStr" not in t.name])
    n2 = len([t for t in make_types(thorough, 2) if "SecretStr" not in t.name])
    units = []
    step = 12

    def add(section, shape, mode, n, st=step):
        for lo in range(0, n, st):
            units.append((section, shape, mode, lo, min(n, lo + st), thorough, D))

    add("dump", "flat", "yaml", ntypes)
    for shape in SHAPES[1:]:
        add("dump", shape, "yaml", n2 if thorough else n1)
    add("dump", "flat", "json", n1)
    if thorough:
        add("dump", "dataclass", "json", n1)
        add("dump", "flat", "jsonnet", 20)
    for shape in SHAPES:
        if shape == "positional":
            continue
        add("print_config", shape, "yaml", n1 if thorough or shape == "flat" else 20)
    add("print_config", "flat", "json", n1 if thorough else 20)
    for shape in SHAPES:
        add("save", shape, "yaml", n1 if thorough or shape == "flat" else 20)
    add("save", "flat", "json", 20)
    totals = run_units(h, grid_unit, units)
    totals2 = run_units(h, focus_unit, focus_units(thorough))
    for k, v in totals2.items():
        totals[k] = totals.get(k, 0) + v
    h.note(f"inputs accepted {totals.get('accepted', 0)}, rejected {totals.get('rejected', 0)}, parsers not built {totals.get('parser-not-built', 0)}")
    h.check(totals.get("accepted", 0) > 0 and totals.get("rejected", 0) > 0, "c01:vacuity", "both accepted and rejected inputs must occur", totals)
    sys.exit(h.finish(exhaustive=True, bound=f"type grammar depth <= {D} ({ntypes} types; all of them in the flat shape, depth <= {2 if thorough else 1} in the other 8 shapes), "
                      f"value sets of gen_d (incl. {len(__import__('bounded.gen_d').gen_d.TRICKY)} look-alike strings), formats yaml/json/json_indented, parser modes yaml/json"
                      + ("/jsonnet" if thorough else "") + ", print_config flags {'',skip_default,comments,skip_null*,comments+skip_default}, save single/multi-file; plus the focused cases of b01_focus"))


if __name__ == "__main__":
    main()
