"""C01 bounded stand-in: a dumped configuration re-parses to the same configuration.

Contract (evaluated on the real ArgumentParser.dump / parse_string / parse_args --print_config / save / parse_path):
for every parser P of the grammar and every configuration c that P returned from a parse method,
    snap(P.parse_string(P.dump(c, format=f, skip_none=False[, skip_default=True][, yaml_comments=True]))) == snap(c)
    snap(P.parse_args(['--cfg', file holding the stdout of P.parse_args(args + ['--print_config[=flags]'])])) == snap(P.parse_args(args))
    P.save(c, path, format=f, skip_none=False, multifile=m); snap(P.parse_path(path)) == snap(c)
where snap is the typed structural snapshot of gen_d (value for value, type for type; meta keys and the config-file
action's own entry are left out).  f ranges over yaml/json/json_indented for yaml-mode parsers and over
json/json_indented/parser_mode for json-mode parsers (a json reader is not asked to read yaml).  The print_config flag
skip_null is only asserted on configurations in which every null sits where the default is null too (otherwise dropping
nulls is lossy by definition and the statement only covers "nulls kept").

Canonical violation keys  c01:<format family>:[<route>:]<what changed>:<the leaf that changed>
The same leaf failing the same way through another route (skip_default, comments, print_config, save, another parser shape
or enclosing type) is the same key; a route that fails where the plain dump of the same configuration does not gets a
key naming the route.  A dump/save/print call that raises is keyed by route, exception, parser shape and a signature of
the message (not by the value).
"""
import calendar
import dataclasses
import os
import re
import sys
import tempfile
import zlib
from typing import Callable, Dict, List, Literal, Optional, Tuple, Type, Union

from bounded.common import Harness, outcome, quiet
from bounded.gen_d import (
    PICK,
    SHAPES,
    TRICKY,
    Built,
    Recorder,
    build,
    first_diff,
    has_none_in_container,
    jsonable,
    leaf_label,
    make_files,
    make_types,
    none_paths,
    render_arg,
    run_units,
    select,
    short,
    snap,
    strings_in,
)

from jsonargparse import ActionConfigFile, ActionParser, ArgumentParser, lazy_instance

# spellings a YAML 1.1/1.2 reader may resolve to a float/int/bool/null - used only to NAME the suspect leaf in the key
# of a failure whose re-parse raised (there is no result to diff), never to decide pass/fail
AMBIG = re.compile(
    r"^(?:[-+]?(?:\.[0-9_]+|[0-9][0-9_]*(?:\.[0-9_]*)?)(?:[eE][-+]?[0-9]+)?|[-+]?\.(?:inf|Inf|INF)|\.(?:nan|NaN|NAN)|[-+]?[0-9][0-9_]*(?::[0-5]?[0-9])+(?:\.[0-9_]*)?"
    r"|0x[0-9a-fA-F_]+|0o?[0-7_]+|0b[01_]+|~|null|Null|NULL|true|True|TRUE|false|False|FALSE|yes|Yes|YES|no|No|NO|on|On|ON|off|Off|OFF|y|Y|n|N|)$"
)
UNSAFE = re.compile("[\x00-\x08\x0b\x0c\x0e-\x1f\x7f\x85\u2028\u2029\ufeff]")


def emitted_plain(s):
    """Does the stock PyYAML dumper write this string without quotes? (only used to name the suspect leaf)"""
    import yaml

    try:
        return yaml.safe_dump(s, allow_unicode=True).split("\n")[0] == s
    except Exception:  # noqa
        return False


def describe(s0, back, fam, hint=""):
    """None if the re-parse `back` (an outcome tuple) equals the snapshot s0, else (kind:leaf, explanation)."""
    if back[0] == "ok":
        d = first_diff(s0, snap(back[1], drop=("cfg",)))
        if d is None:
            return None
        path, kind, a, b = d
        return f"{kind}:{leaf_label(a if a is not None else b)}", f"at {path or '.'}: {a!r} came back as {b!r}"
    # the re-parse raised: there is no result to diff, so name the most suspicious leaf of the configuration
    why = "raises:" + back[1] if back[0] == "exc" else f"exit:{back[1]}"
    leaves = strings_in(s0)
    texts = [(k, s) for k, s in leaves if k in ("str", "enum", "path")]
    sus = []
    if fam == "json":
        sus = [(k, s) for k, s in leaves if k == "float" and s in ("nan", "inf", "-inf")]
    if not sus:
        sus = [(k, s) for k, s in texts if UNSAFE.search(s)]
    if not sus:
        sus = [(k, s) for k, s in texts if AMBIG.match(s) and emitted_plain(s)]
    if not sus:
        sus = [(k, s) for k, s in texts if AMBIG.match(s)]
        sus.sort(key=lambda ks: (not re.search(r"[0-9_]", ks[1]), ks[1] == ""))  # number-like first, the empty string last
    if sus:
        return f"{sus[0][0]}>{why}:{short(sus[0][1])}", f"re-parse failed: {back[1:]}"
    return f"{why}:{hint}", f"re-parse failed: {back[1:]}"


def msgsig(msg):
    """Signature of an exception message with the quoted / numeric parts (values, addresses) removed."""
    norm = re.sub(r"/[^\s'\"]+|'[^']*'|\"[^\"]*\"|\{[^}]*\}|0x[0-9a-fA-F]+|[0-9]+", "", str(msg))[:200]  # no paths, values, sets, addresses, numbers
    return format(zlib.crc32(norm.encode("utf-8", "backslashreplace")) & 0xFFFFFF, "06x")


class Ctx:
    def __init__(self, rec, B, tname, default_label, mode):
        self.rec, self.B, self.tname, self.default_label, self.mode = rec, B, tname, default_label, mode
        self.n = 0

    def case(self, inp, extra=None):
        c = {"parser": f"shape={self.B.shape} type={self.tname} default={self.default_label} parser_mode={self.mode}", "input": inp}
        if extra:
            c.update(extra)
        return c


def failkey(cx, fam, route, res):
    what = res[1] if res[0] == "exc" else f"exit{res[1]}"
    return f"c01:{fam}:{route + ':' if route else ''}{what}:{msgsig(res[2] if len(res) > 2 else '')}"


def formats(mode):
    return ["yaml", "json", "json_indented"] if mode == "yaml" else ["json", "json_indented", "parser_mode"]


def fam_of(fmt):
    return "yaml" if fmt == "yaml" else "json"


def s0_leaf(s0, cx):
    cur = s0
    for part in [x for x in cx.B.leaf.split(".") if x]:
        if cur[0] == "ns":
            cur = dict(cur[1]).get(part, ("None",))
        elif cur[0] == "dict":
            cur = {k[-1]: v for k, v in cur[1]}.get(part, ("None",))
    return cur


def check_dumps(cx: Ctx, cfg, s0, inp, plain=True, skip_default=True, comments=False, all_formats=False, fewer=False):
    """dump -> parse_string for every format, plus the skip_default and yaml_comments variants."""
    p, rec = cx.B.parser, cx.rec
    seen = {}  # (variant, fam) -> failure kind

    def one(vname, fmt, kw, count=True):
        fam = fam_of(fmt)
        text = outcome(p.dump, cfg, format=fmt, skip_none=False, **kw)
        if text[0] != "ok":
            kind = f"dump-failed:{text[1]}:{msgsig(text[2])}"
            prior = [v for v in ("", "skip_default", "comments") if v != vname and seen.get((v, fam)) == kind]
            seen.setdefault((vname, fam), kind)
            if count:
                route = prior[0] if prior else vname
                rec.check(False, failkey(cx, fam, "dump" + (":" + route if route else ""), text),
                          f"dump({vname or 'plain'}) of an accepted configuration failed: {text[1:]}", cx.case(inp, {"format": fmt, "variant": vname}))
            return
        back = outcome(p.parse_string, text[1])
        bad = describe(s0, back, fam, leaf_label(s0_leaf(s0, cx)))
        kind = bad[0] if bad else None
        seen.setdefault((vname, fam), kind)
        if not count:
            return
        key = ""
        if bad:
            prior = [v for v in ("", "skip_default", "comments") if v != vname and seen.get((v, fam)) == kind]
            route = prior[0] if prior else vname
            key = f"c01:{fam}:{route + ':' if route else ''}{kind}"
        rec.check(bad is None, key, bad[1] if bad else "", cx.case(inp, {"format": fmt, "variant": vname, "dump": text[1][:300]}))

    fmts = formats(cx.mode)
    for fmt in fmts[:2] if fewer else fmts:
        one("", fmt, {}, count=plain or fmt == fmts[0])
    if skip_default:
        for fmt in fmts if all_formats else fmts[:1]:
            one("skip_default", fmt, dict(skip_default=True))
    if comments and cx.mode == "yaml":
        one("comments", "yaml", dict(yaml_comments=True))
        if skip_default:
            one("comments+skip_default", "yaml", dict(yaml_comments=True, skip_default=True))


def quick_base(cx, cfg, s0):
    """How the plain dump of this configuration fails (per format family), without recording an evaluation."""
    p = cx.B.parser
    base = {}
    for fmt in ("yaml", "json") if cx.mode == "yaml" else ("json",):
        text = outcome(p.dump, cfg, format=fmt, skip_none=False)
        if text[0] != "ok":
            base[fmt] = f"dump-failed:{text[1]}:{msgsig(text[2])}"
            continue
        bad = describe(s0, outcome(p.parse_string, text[1]), fmt, leaf_label(s0_leaf(s0, cx)))
        base[fmt] = bad[0] if bad else None
    return base


class LazyBase:
    """quick_base, computed only when a failure has to be compared with the plain dump."""

    def __init__(self, cx, cfg, s0):
        self.args, self.val = (cx, cfg, s0), None

    def get(self, fam):
        if self.val is None:
            self.val = quick_base(*self.args)
        return self.val.get(fam)


PC_FLAGS = ["", "skip_default", "comments", "skip_null", "comments,skip_default"]


def check_print_config(cx: Ctx, args, sub=False, flags_list=PC_FLAGS):
    """stdout of parse_args(args + --print_config[=flags]) -> file -> parse_args(--cfg file) == parse_args(args)."""
    p, rec, B = cx.B.parser, cx.rec, cx.B
    ref = outcome(p.parse_args, list(args))
    vars(p).pop("print_config", None)
    if ref[0] != "ok":
        rec.count("rejected")
        return False
    s0 = snap(ref[1], drop=("cfg",))
    base = LazyBase(cx, ref[1], s0)
    dflt = outcome(p.get_defaults)
    fam = "yaml" if cx.mode == "yaml" else "json"
    seen = {}
    for flags in flags_list:
        if cx.mode != "yaml" and "comments" in flags:
            continue
        if "skip_null" in flags:
            # nulls are dropped by this flag: only a lossless request when every null sits where the default is null too
            if dflt[0] != "ok" or has_none_in_container(s0) or not none_paths(s0) <= none_paths(snap(dflt[1], drop=("cfg",))):
                continue
        opt = "--print_config" + ("=" + flags if flags else "")
        if (B.shape.startswith("subcmd") or B.pc_first) and not sub:
            argv = [opt] + list(args)
        else:
            argv = list(args) + [opt]
        code, text, msg = None, "", ""
        try:
            with quiet() as (out, err):
                try:
                    p.parse_args(argv)
                finally:
                    text = out.getvalue()
        except SystemExit as ex:
            code = ex.code
        except BaseException as ex:  # noqa
            code, msg = type(ex).__name__, str(ex)
        vars(p).pop("print_config", None)
        route = "print_config" + ("/sub" if sub else "")
        variant = flags.replace("comments,", "comments+")
        if code != 0:
            res = ("exc", code, msg) if isinstance(code, str) else ("exit", code, "")
            kind = f"dump-failed:{res[1]}:{msgsig(msg)}"
            prior = [f for f in ("", "skip_default", "comments") if f != variant and seen.get(f) == kind]
            seen.setdefault(variant, kind)
            if kind == base.get(fam):
                key = failkey(cx, fam, "dump", res)
            else:
                fl = prior[0] if prior else variant
                # the flags map onto dump variants: name the variant so that dump(...) and --print_config agree on the key
                key = failkey(cx, fam, "dump:" + fl if fl else route, res)
            rec.check(False, key, f"--print_config did not print and exit 0 (got {code} {msg[:200]})", cx.case(argv))
            continue
        cx.n += 1
        fname = f"pc{cx.n}.{'yaml' if cx.mode == 'yaml' else 'json'}"
        with open(fname, "w") as f:
            f.write(text)
        back = outcome(p.parse_args, B.sub_cfg_argv(fname) if sub else [f"--cfg={fname}"])
        vars(p).pop("print_config", None)
        os.unlink(fname)
        bad = describe(s0, back, fam, leaf_label(s0_leaf(s0, cx)))
        key = ""
        if bad:
            kind = bad[0]
            prior = [f for f in ("", "skip_default", "comments") if f != variant and seen.get(f) == kind]
            seen.setdefault(variant, kind)
            if kind == base.get(fam):
                key = f"c01:{fam}:{kind}"
            else:
                fl = prior[0] if prior else variant
                key = f"c01:{fam}:{fl + ':' if fl else route + ':'}{kind}"
        rec.check(bad is None, key, bad[1] if bad else "", cx.case(argv, {"printed": text[:300]}))
    return True


def check_save(cx: Ctx, cfg, s0, inp, all_combos=False, subdir=None):
    p, rec = cx.B.parser, cx.rec
    base = LazyBase(cx, cfg, s0)
    combos = [("yaml", True), ("json", False)] if cx.mode == "yaml" else [("json", True), ("parser_mode", False)]
    if all_combos:
        combos = [(f, m) for f in formats(cx.mode) for m in (True, False)]
    for fmt, multi in combos:
        fam = fam_of(fmt)
        cx.n += 1
        fname = f"sv{cx.n}.{'yaml' if fmt == 'yaml' else 'json'}"
        if subdir:
            os.makedirs(f"{subdir}{cx.n}", exist_ok=True)
            fname = os.path.join(f"{subdir}{cx.n}", fname)
        res = outcome(p.save, cfg, fname, format=fmt, skip_none=False, multifile=multi)
        route = f"save:{'multi' if multi else 'single'}"
        if res[0] != "ok":
            kind = f"dump-failed:{res[1]}:{msgsig(res[2])}"
            rec.check(False, failkey(cx, fam, "dump" if kind == base.get(fam) else route, res), f"save of an accepted configuration failed: {res[1:]}", cx.case(inp, {"format": fmt, "multifile": multi}))
        else:
            back = outcome(p.parse_path, fname)
            bad = describe(s0, back, fam, leaf_label(s0_leaf(s0, cx)))
            key = ""
            if bad:
                key = f"c01:{fam}:{bad[0]}" if bad[0] == base.get(fam) else f"c01:{fam}:{route}:{bad[0]}"
            rec.check(bad is None, key, bad[1] if bad else "", cx.case(inp, {"format": fmt, "multifile": multi}))
        if not subdir and os.path.exists(fname):
            os.unlink(fname)


# ------------------------------------------------------------------------------------------------ the grid
def inputs_for(ts, B, full):
    vals = ts.vals if full else ts.core
    out = [("obj", v) for v in vals]
    if B.argv is not None:
        for v in vals:
            if isinstance(v, str) and "\x00" not in v:
                out.append(("argv", v))
            elif full and ts.depth >= 1 and jsonable(v) and v is not None and not isinstance(v, str):
                out.append(("argv", render_arg(v)))
    return out


def feed(B, inp):
    ch, v = inp
    if ch == "obj":
        return outcome(B.parser.parse_object, B.wrap(v))
    args = B.argv(v)
    if args is None:
        return ("exc", "skip", "")
    res = outcome(B.parser.parse_args, args)
    vars(B.parser).pop("print_config", None)
    return res


COMMENT_TYPES = {"str", "int", "float", "bool", "Literal", "Color", "NumEnum", "Path_fr", "NumLike", "timedelta", "Optional[str]", "Dict[str,str]", "List[str]", "Union[int,str]", "Union[str,int]",
                 "Union[bool,str]", "Union[str,bool]", "Union[float,str]", "Tuple[str,int]", "Set[str]", "Dict[int,str]"}


def grid_unit(unit):
    section, shape, mode, subset, lo, hi, thorough, maxdepth = unit
    rec = Recorder()
    old = os.getcwd()
    with tempfile.TemporaryDirectory() as td:
        os.chdir(td)
        try:
            make_files()
            types = select([t for t in make_types(thorough, maxdepth) if "SecretStr" not in t.name], subset)[lo:hi]
            for ts in types:
                for dlabel in ("none", "canon"):
                    default = None if dlabel == "none" else ts.canon
                    if dlabel == "canon" and (default is None or shape == "positional"):
                        continue
                    if dlabel == "canon" and not thorough and (section == "save" or ts.depth >= 2 or ts.depth == 1 and ts.name not in PICK):
                        continue
                    if dlabel == "canon" and thorough and ts.depth >= 3:
                        continue
                    try:
                        B = build(shape, ts, default, mode)
                    except Exception as ex:  # noqa
                        rec.count("parser-not-built")
                        rec.count(f"parser-not-built:{shape}:{ts.name}:{type(ex).__name__}"[:100])
                        continue
                    cx = Ctx(rec, B, ts.name, dlabel, mode)
                    full = shape == "flat" and (section == "dump" or ts.name == "str") or thorough and ts.depth == 0
                    seen = set()
                    if section in ("dump", "save"):
                        for inp in inputs_for(ts, B, full):
                            res = feed(B, inp)
                            if res[0] != "ok":
                                rec.count("rejected")
                                continue
                            rec.count("accepted")
                            cfg = res[1]
                            s0 = snap(cfg, drop=("cfg",))
                            if s0 in seen:
                                continue
                            seen.add(s0)
                            label = [inp[0], inp[1]]
                            rec.nontrivial(f"{section}:{shape}:{mode}:{ts.name}:{dlabel}:{short(s0_leaf(s0, cx), limit=60)}")
                            if section == "dump":
                                # quick tier: all formats with the None default, the yaml pair (plain, skip_default) with the non-None default
                                check_dumps(cx, cfg, s0, label, plain=(dlabel == "none" or thorough), skip_default=(dlabel == "canon" or thorough or ts.depth == 0),
                                            comments=(ts.name in COMMENT_TYPES and (shape in ("flat", "subcmd1") or thorough)), all_formats=thorough and ts.depth <= 1, fewer=(ts.depth >= 2))
                            else:
                                check_save(cx, cfg, s0, label, all_combos=thorough)
                            if len(rec.samples) < 1 and ts.depth >= 1:
                                rec.sample({"section": section, "shape": shape, "type": ts.name, "input": repr(inp[1])[:80]})
                    elif B.argv is not None:
                        seen_args = set()
                        for ch, v in inputs_for(ts, B, full):
                            if ch != "argv":
                                if not jsonable(v) or v is None or isinstance(v, str):
                                    continue
                                v = render_arg(v)
                            args = B.argv(v)
                            if args is None or tuple(args) in seen_args:
                                continue
                            seen_args.add(tuple(args))
                            for sub in ((False, True) if B.sub_cfg_argv else (False,)):
                                if check_print_config(cx, args, sub=sub, flags_list=PC_FLAGS if shape == "flat" or thorough else PC_FLAGS[:3]):
                                    rec.count("accepted")
                                    rec.nontrivial(f"{section}:{shape}:{mode}:{ts.name}:{dlabel}:{sub}:{short(v, limit=60)}")
        finally:
            os.chdir(old)
    return rec


# ------------------------------------------------------------------------------------------------ focused cases
@dataclasses.dataclass
class Inner:
    s: str = "x"
    n: Optional[int] = None


@dataclasses.dataclass
class Outer:
    i: Inner = dataclasses.field(default_factory=Inner)
    l: List[Inner] = dataclasses.field(default_factory=list)  # noqa: E741
    o: Optional[Inner] = None
    m: Dict[str, Inner] = dataclasses.field(default_factory=dict)
    t: Tuple[str, Optional[float]] = ("1e1x", None)


class Base:
    def __init__(self, p: int = 1, q: str = "q"):
        pass


class Sub(Base):
    def __init__(self, r: float = 0.5, **kwargs):
        super().__init__(**kwargs)


class KW(Base):
    def __init__(self, **kwargs):
        pass


class Holder:
    def __init__(self, b: Base = lazy_instance(Sub, r=2.0), n: int = 0, o: Optional[Base] = None):
        pass


class Deep(Base):
    def __init__(self, inner: Optional[Base] = None, items: Optional[List[Base]] = None, d: Optional[Inner] = None, **kwargs):
        super().__init__(**kwargs)


ME = __name__


def small_dicts():
    out = [{}]
    for k in ("a", "b"):
        for v in (1, 2):
            out.append({k: v})
    for va in (1, 2):
        for vb in (1, 2):
            out.append({"a": va, "b": vb})
    return out


def focus_cases(thorough):
    """(label, build(parser), inputs) - inputs are ('obj', dict) or ('argv', [args])."""
    cases = []

    # F1: skip_default on Dict-typed values: every default x every value over dicts with keys a,b and values 1,2
    for tname, hint, lift in (("Dict[str,int]", Dict[str, int], lambda d: d), ("Optional[Dict[str,int]]", Optional[Dict[str, int]], lambda d: d),
                              ("Dict[str,Dict[str,int]]", Dict[str, Dict[str, int]], lambda d: {"x": d, "y": {"a": 1}}), ("Dict[str,List[int]]", Dict[str, List[int]], lambda d: {k: [v] for k, v in d.items()})):
        for d0 in small_dicts() if thorough or tname == "Dict[str,int]" else [{"a": 1}, {"a": 1, "b": 2}]:
            def b(p, hint=hint, d0=d0, lift=lift):
                p.add_argument("--cfg", action=ActionConfigFile)
                p.add_argument("--a", type=hint, default=lift(d0))
            cases.append((f"dictdefault:{tname}", b, [("obj", {"a": lift(v)}) for v in small_dicts()]))

    # F2: skip_default decides "same as the default" with ==, which identifies 1, 1.0 and True
    for tname, hint, dflt, vals in (
        ("Union[int,float]", Union[int, float], 1, [1.0, 1, 2.0]), ("Union[float,int]", Union[float, int], 1.0, [1, 1.0]), ("Union[bool,int]", Union[bool, int], True, [1, True, 0]),
        ("Union[int,bool]", Union[int, bool], 1, [True, 1]), ("Union[int,bool]", Union[int, bool], 0, [False, 0]), ("Union[bool,float]", Union[bool, float], False, [0.0, False]),
        ("List[Union[int,float]]", List[Union[int, float]], [1, 2], [[1.0, 2], [1, 2], [1, 2.0]]), ("Dict[str,Union[int,bool]]", Dict[str, Union[int, bool]], {"k": 1}, [{"k": True}, {"k": 1}]),
        ("Tuple[Union[int,float],...]", Tuple[Union[int, float], ...], (1,), [[1.0], [1]]), ("Union[int,str]", Union[int, str], 1, ["1", 1]), ("Union[str,int]", Union[str, int], "1", [1, "1"]),
        ("Optional[float]", Optional[float], 0.0, [-0.0, 0.0, None]), ("Literal[1,True,0,False]", Literal[1, True, 0, False], 1, [True, 1, False, 0]),
    ):
        def b(p, hint=hint, dflt=dflt):
            p.add_argument("--cfg", action=ActionConfigFile)
            p.add_argument("--a", type=hint, default=dflt)
        cases.append((f"eqdefault:{tname}={dflt!r}", b, [("obj", {"a": v}) for v in vals]))

    # F3: subcommands - a subcommand without options, optional subcommands, identical option names, all-default choice
    def subs(p, required=True, empty_b=True, same=False):
        p.add_argument("--cfg", action=ActionConfigFile)
        p.add_argument("--top", type=Optional[str], default=None)
        sc = p.add_subcommands(required=required)
        a = ArgumentParser(exit_on_error=False)
        a.add_argument("--x", type=int, default=1)
        b = ArgumentParser(exit_on_error=False)
        if not empty_b:
            b.add_argument("--x" if same else "--y", type=int, default=1 if same else 2)
        c = ArgumentParser(exit_on_error=False)
        c.add_argument("pos", type=str)
        sc.add_subcommand("a", a)
        sc.add_subcommand("b", b)
        sc.add_subcommand("c", c)
    sub_inputs = [("argv", ["a"]), ("argv", ["b"]), ("argv", ["a", "--x=2"]), ("argv", ["--top=1e3", "b"]), ("argv", ["c", "1e3"]), ("argv", ["c", "null"]), ("argv", []), ("obj", {"b": {}}), ("obj", {"subcommand": "b"}),
                  ("argv", ["b", "--x=1"]), ("argv", ["b", "--y=2"]), ("argv", ["b", "--y=3"])]
    cases.append(("subcommands:b-has-no-options", lambda p: subs(p), sub_inputs))
    cases.append(("subcommands:optional", lambda p: subs(p, required=False), sub_inputs))
    cases.append(("subcommands:with-options", lambda p: subs(p, empty_b=False), sub_inputs))
    cases.append(("subcommands:same-option-names", lambda p: subs(p, empty_b=False, same=True), sub_inputs))

    # F4: nested dataclasses
    dc_inputs = [
        ("obj", {"o": {"i": {"s": "null"}, "l": [{"s": "a"}, {"n": 1}], "o": {"n": None}, "m": {"k": {"s": "~"}}}}),
        ("obj", {"o": {"i": {"s": "1e3"}, "o": None}}), ("obj", {"o": {"l": [{"s": "1e3", "n": 1}], "m": {"1e3": {"s": "x"}}}}), ("obj", {"o": {"t": ["", 1]}}), ("obj", {"o": {"t": ["null", None]}}),
        ("argv", ["--o.i.s=", "--o.o.s=on"]), ("argv", ["--o.l+={\"s\": \"a: b\"}", "--o.l+={\"n\": 2}"]), ("argv", ["--o.o={\"n\": 3}", "--o.o=null"]), ("argv", ["--o.m.k.s=true", "--o.m.j.n=4"]), ("argv", []),
        ("obj", {"o": {"i": {"s": "x", "n": None}, "l": [], "o": {"s": "x", "n": None}, "m": {}}}),
    ]

    def dc(p, default=dataclasses.MISSING, opt=False):
        p.add_argument("--cfg", action=ActionConfigFile)
        kw = {} if default is dataclasses.MISSING else {"default": default}
        p.add_argument("--o", type=Optional[Outer] if opt else Outer, **kw)
    cases.append(("dataclass:Outer", lambda p: dc(p), dc_inputs))
    cases.append(("dataclass:Outer=instance", lambda p: dc(p, default=Outer(i=Inner(s="z"), o=Inner(n=2), l=[Inner(s="li")])), dc_inputs))
    cases.append(("dataclass:Optional[Outer]=None", lambda p: dc(p, default=None, opt=True), dc_inputs))

    def dc_group(p):
        p.add_argument("--cfg", action=ActionConfigFile)
        p.add_class_arguments(Outer, "o")
    cases.append(("dataclass:class-arguments", dc_group, dc_inputs))

    def dc_list(p):
        p.add_argument("--cfg", action=ActionConfigFile)
        p.add_argument("--l", type=List[Outer], default=[])
        p.add_argument("--d", type=Dict[str, Optional[Inner]], default={})
    cases.append(("dataclass:List[Outer]", dc_list, [("obj", {"l": [{"i": {"s": "1e3"}}, {"o": {"n": 1}}], "d": {"k": None, "j": {"s": "~"}}}), ("argv", ["--l+={\"t\": [\"x\", 1.5]}"]), ("obj", {"l": [{}]})]))

    # F5: subclass specs
    spec_inputs = [
        ("argv", []), ("argv", ["--b=Base"]), ("argv", ["--b=Sub"]), ("argv", ["--b=Sub", "--b.r=2.0"]), ("argv", ["--b=Sub", "--b.r=1", "--b.q=1e3"]), ("argv", ["--b=Base", "--b.p=2"]),
        ("argv", [f"--b={ME}.KW", "--b.dict_kwargs.zz=1e3", "--b.dict_kwargs.n=null"]), ("obj", {"b": {"class_path": f"{ME}.KW", "dict_kwargs": {"zz": "1e3", "p": 1}}}), ("obj", {"b": {"class_path": f"{ME}.Sub"}}),
        ("obj", {"b": {"class_path": f"{ME}.Sub", "init_args": {"r": 0.5, "p": 1, "q": "q"}}}), ("obj", {"b": {"class_path": f"{ME}.Base", "init_args": {"q": "null"}}}), ("obj", {"b": None}),
        ("argv", ["--b=Deep", "--b.inner=Sub", "--b.inner.r=3", "--b.items+=Base", "--b.items+=Sub", "--b.d.s=on"]),
        ("obj", {"b": {"class_path": f"{ME}.Deep", "init_args": {"inner": {"class_path": f"{ME}.Deep", "init_args": {"inner": {"class_path": f"{ME}.Base"}}}}}}),
    ]
    for label, kw in (("no-default", {}), ("default=lazy_instance(Sub,r=2.0)", {"default": lazy_instance(Sub, r=2.0)}), ("default=spec(Sub,r=2.0)", {"default": {"class_path": f"{ME}.Sub", "init_args": {"r": 2.0}}}),
                      ("default=spec(Base)", {"default": {"class_path": f"{ME}.Base"}})):
        def b(p, kw=kw):
            p.add_argument("--cfg", action=ActionConfigFile)
            p.add_argument("--b", type=Base, **kw)
        cases.append((f"subclass:Base:{label}", b, spec_inputs))

    def b_opt(p):
        p.add_argument("--cfg", action=ActionConfigFile)
        p.add_argument("--b", type=Optional[Base], default=None)
    cases.append(("subclass:Optional[Base]=None", b_opt, spec_inputs))

    def b_holder(p):
        p.add_argument("--cfg", action=ActionConfigFile)
        p.add_class_arguments(Holder, "h")
    cases.append(("subclass:class-arguments(Holder)", b_holder, [("argv", []), ("argv", ["--h.b=Base"]), ("argv", ["--h.b=Base", "--h.b.p=2", "--h.o=Sub"]), ("argv", ["--h.b.r=0.5"]), ("argv", ["--h.b.r=2.0", "--h.n=1"]),
                                                                 ("argv", [f"--h.b={ME}.KW", "--h.b.dict_kwargs.zz=1"]), ("argv", ["--h.o=Base", "--h.o.q=~"])]))

    def b_cont(p):
        p.add_argument("--cfg", action=ActionConfigFile)
        p.add_argument("--l", type=List[Base], default=[])
        p.add_argument("--d", type=Dict[str, Base], default={})
        p.add_argument("--u", type=Union[Base, str], default=None)
        p.add_argument("--v", type=Union[str, Base], default=None)
        p.add_argument("--w", type=Union[Base, int], default=3)
    cases.append(("subclass:containers+unions", b_cont, [("argv", ["--l+=Sub", "--l+=Base"]), ("obj", {"d": {"k": {"class_path": f"{ME}.Sub"}, "1e3": {"class_path": f"{ME}.Base"}}}), ("argv", ["--u=Sub"]), ("argv", ["--u=hello"]),
                                                         ("argv", ["--u=1e3"]), ("argv", ["--v=Sub"]), ("argv", [f"--v={ME}.Sub"]), ("argv", ["--w=Sub", "--w.r=1"]), ("argv", ["--w=4"]),
                                                         ("obj", {"u": {"class_path": f"{ME}.Sub"}, "v": {"class_path": f"{ME}.Sub"}})]))

    def b_call(p):
        p.add_argument("--cfg", action=ActionConfigFile)
        p.add_argument("--c", type=Callable[[int], bool], default=calendar.isleap)
        p.add_argument("--o", type=Optional[Callable[[int], bool]], default=None)
        p.add_argument("--t", type=Type[Base], default=Base)
        p.add_argument("--f", type=Optional[Callable[[int], Base]], default=None)
    cases.append(("callable+type", b_call, [("argv", []), ("argv", ["--c=calendar.isleap", "--o=calendar.isleap"]), ("argv", ["--c=builtins.bool"]), ("argv", [f"--t={ME}.Sub"]), ("obj", {"t": Sub, "c": calendar.isleap}),
                                            ("argv", ["--o=null"]), ("argv", [f"--f={ME}.Sub"]), ("argv", [f"--f={ME}.Sub", "--f.r=3"])]))

    # F7: dump_header, help texts and values that look like YAML structure next to an inner parser and a group
    def b_header(p):
        p.dump_header = ["app 1.0", "a: 1", "- x", ""]
        p.add_argument("--cfg", action=ActionConfigFile)
        p.add_argument("--a", type=Optional[str], default="v", help="line1\nline2 # x: y")
        g = p.add_argument_group("Group:\nsecond line", description="desc")
        g.add_argument("--g.b", type=Optional[str], default="1", help="%(default)s")
        ip = ArgumentParser(exit_on_error=False, description="inner: [")
        ip.add_argument("--x", type=Optional[str], default="1e1x")
        ip.add_argument("--y", type=Inner, default=Inner())
        p.add_argument("--in", action=ActionParser(parser=ip), help="inner\nhelp")
    cases.append(("dump_header+help-texts", b_header, [("argv", []), ("argv", ["--a=a # b", "--g.b=#"]), ("argv", ["--a=line1\nline2", "--in.x=\n# c"]), ("argv", ["--in.y.s=x\ny: 2", "--g.b=g:\n  b: 3"]), ("argv", ["--a=null", "--in.x=null"])]))
    return cases


def focus_units(thorough):
    n = len(focus_cases(thorough))
    return [("focus", i, thorough) for i in range(n)] + [("meta", 0, thorough)]


def focus_unit(unit):
    kind, idx, thorough = unit
    rec = Recorder()
    old = os.getcwd()
    with tempfile.TemporaryDirectory() as td:
        os.chdir(td)
        try:
            if kind == "meta":
                meta_cases(rec, thorough)
                return rec
            label, b, inputs = focus_cases(thorough)[idx]
            p = ArgumentParser(exit_on_error=False, prog="app")
            b(p)
            B = Built(p, label, lambda v: v, lambda a: a, "", pc_first=label.startswith("subcommands"))
            cx = Ctx(rec, B, "-", "-", "yaml")
            seen = set()
            for inp in inputs:
                res = feed(B, inp)
                if res[0] != "ok":
                    rec.count("rejected")
                    continue
                rec.count("accepted")
                cfg = res[1]
                s0 = snap(cfg, drop=("cfg",))
                if s0 in seen:
                    continue
                seen.add(s0)
                rec.nontrivial(f"focus:{label}:{short(inp[1], limit=90)}")
                check_dumps(cx, cfg, s0, list(inp), comments=not label.startswith(("dictdefault", "eqdefault")), all_formats=thorough or not label.startswith("dictdefault"))
                if not label.startswith(("dictdefault", "eqdefault")):
                    check_save(cx, cfg, s0, list(inp), all_combos=thorough)
                    if inp[0] == "argv":
                        check_print_config(cx, inp[1])
            rec.sample({"focus": label, "inputs": len(inputs)})
        finally:
            os.chdir(old)
    return rec


def meta_cases(rec, thorough):
    """save(multifile=True) of configurations that carry __path__ metadata (nested config files), into another directory."""
    os.makedirs("src", exist_ok=True)
    texts = {"plain": "s: y\nn: 2\n", "tricky": "s: '1e3'\nn: null\n", "nullish": "s: 'null'\n", "multi": "s: \"a\\nb: 1\"\nn: 3\n"}
    for name, text in texts.items():
        with open(f"src/{name}.yaml", "w") as f:
            f.write(text)
        with open(f"src/main_{name}.yaml", "w") as f:
            f.write(f"top: '1:30'\nd: {name}.yaml\nin: {name}_in.yaml\n")
        with open(f"src/{name}_in.yaml", "w") as f:
            f.write(text)
    with open("src/sub.yaml", "w") as f:
        f.write(f"class_path: {ME}.Sub\ninit_args:\n  r: 3.5\n  q: '~'\n")

    p = ArgumentParser(exit_on_error=False, prog="app")
    p.add_argument("--cfg", action=ActionConfigFile)
    p.add_argument("--top", type=Optional[str], default=None)
    p.add_argument("--d", type=Inner, default=Inner())
    ip = ArgumentParser(exit_on_error=False)
    ip.add_argument("--s", type=str, default="1e1x")
    ip.add_argument("--n", type=Optional[int], default=None)
    p.add_argument("--in", action=ActionParser(parser=ip))
    p.add_argument("--b", type=Optional[Base], default=None)
    B = Built(p, "meta:nested-config-files", lambda v: v, lambda a: a, "")
    cx = Ctx(rec, B, "-", "-", "yaml")
    for name in texts:
        for args in ([f"--d=src/{name}.yaml"], [f"--in=src/{name}.yaml"], [f"--cfg=src/main_{name}.yaml"], [f"--d=src/{name}.yaml", "--d.n=7", "--b=src/sub.yaml"], [f"--cfg=src/main_{name}.yaml", "--in.s=over"]):
            res = outcome(p.parse_args, args)
            if res[0] != "ok":
                rec.count("rejected")
                continue
            rec.count("accepted")
            cfg = res[1]
            s0 = snap(cfg, drop=("cfg",))
            rec.nontrivial(f"meta:{name}:{' '.join(args)}")
            check_save(cx, cfg, s0, ["argv", args], all_combos=True, subdir="out")
            check_dumps(cx, cfg, s0, ["argv", args], comments=True)


def any_unit(unit):
    import time

    t0 = time.time()
    rec = focus_unit(unit) if unit[0] in ("focus", "meta") else grid_unit(unit)
    if os.environ.get("VERIF_TIMING"):
        rec.count("time:" + ":".join(map(str, unit[:3])), round(time.time() - t0, 2))
        rec.count("maxunit:" + ":".join(map(str, unit[:5])) , round(time.time() - t0, 2))
    return rec


# ------------------------------------------------------------------------------------------------ main
def main():
    h = Harness("b01_roundtrip", rule="parsers = shape x type of G(d) x default in {None, a normalised value} x parser_mode; configurations = every distinct result the parser "
                "returns for the per-type value sets (python objects through parse_object, strings through argv); one evaluation = one (parser, configuration, "
                "route) with route in dump formats x {plain, skip_default, comments}, --print_config flags, save/parse_path; non-trivial = distinct "
                "(section, shape, mode, type, default, resulting leaf value)")
    thorough = h.thorough
    D = 3 if thorough else 2
    alltypes = [t for t in make_types(thorough, D) if "SecretStr" not in t.name]
    units = []

    def add(section, shape, mode, subset, st=10):
        n = len(select(alltypes, subset))
        for lo in range(0, n, st):
            units.append((section, shape, mode, subset, lo, min(n, lo + st), thorough, D))

    add("dump", "flat", "yaml", "all", st=5 if not thorough else 12)
    for shape in SHAPES[1:]:
        add("dump", shape, "yaml", "d1" if thorough else ("few" if shape.startswith("subclass") else "pick"), st=4 if shape.startswith("subclass") else 8)
    add("dump", "flat", "json", "d1" if thorough else "pick", st=5)
    if thorough:
        add("dump", "dataclass", "json", "pick")
        add("dump", "subcmd1", "json", "pick")
    for shape in SHAPES:
        if shape != "positional":
            add("print_config", shape, "yaml", ("d1" if thorough else "pick") if shape == "flat" else ("pick" if thorough else "tiny"), st=1)
    add("print_config", "flat", "json", "pick" if thorough else "few", st=3)
    for shape in SHAPES:
        add("save", shape, "yaml", ("d1" if thorough else "pick") if shape == "flat" else ("pick" if thorough else "few"), st=5)
    add("save", "flat", "json", "pick" if thorough else "few")
    totals = run_units(h, any_unit, units + focus_units(thorough))
    h.note(f"inputs accepted {totals.get('accepted', 0)}, rejected {totals.get('rejected', 0)}, parsers not built {totals.get('parser-not-built', 0)}: "
           + ", ".join(sorted(k.split(':', 1)[1] for k in totals if k.startswith('parser-not-built:'))[:12]))
    if os.environ.get("VERIF_TIMING"):
        h.note("timing: " + ", ".join(f"{k}={v:.1f}" for k, v in sorted(totals.items(), key=lambda kv: -kv[1]) if k.startswith(("time:", "maxunit:")))[:3000])
    h.check(totals.get("accepted", 0) > 0 and totals.get("rejected", 0) > 0, "c01:vacuity", "both accepted and rejected inputs must occur", totals)
    if h.only:  # replay: report only the requested key (exit status 1 iff it still fails)
        h.violations = [v for v in h.violations if v["key"] == h.only]
        h.viol_keys = {v["key"] for v in h.violations}
    if len(h.viol_keys) > len(h.violations):
        stored = {v["key"] for v in h.violations}
        h.note(f"{len(h.viol_keys)} distinct violation keys, only {len(h.violations)} stored; the others: " + " | ".join(sorted(h.viol_keys - stored)))
    sys.exit(h.finish(exhaustive=True, bound=f"type grammar depth <= {D} ({len(alltypes)} types; all of them in the flat shape, {'depth <= 1' if thorough else 'leaves + 37 representative depth-1 types'} in the other "
                      f"{len(SHAPES) - 1} shapes), value sets of gen_d (incl. {len(TRICKY)} look-alike strings), formats yaml/json/json_indented, parser modes yaml/json, print_config flags ('', skip_default, comments, skip_null*, comments+skip_default) at top level and inside subcommands, save single/multi-file; "
                      "focused cases: skip_default over all (default, value) pairs of dicts with keys a,b / values 1,2; ==-confusable defaults; 4 subcommand layouts; nested dataclasses; subclass specs "
                      "(5 default styles, containers, unions, callables); nested config files saved multi-file"))


if __name__ == "__main__":
    main()
