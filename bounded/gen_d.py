"""Shared generators and the independent oracle for b01_roundtrip (C01) and b10_fixedpoint (C10).

* `snap` / `first_diff`: the oracle - a typed structural snapshot of a configuration (value for value, type for type),
  written from the property statement; it never calls into jsonargparse (it only reads attributes of the result).
* `make_types`: the type-hint grammar G(d) of DESIGN.md section 3 with per-type value sets (conforming, non-conforming and
  "looks like another type" spellings).
* `build`: parser shapes (flat option, positional, dotted group, dataclass, class group, subclass argument, inner parser,
  subcommands depth 1 and 2) with the type under test at the leaf position.
"""
from __future__ import annotations

import dataclasses
import datetime
import decimal
import enum
import itertools
import json
import os
import re
import sys
import uuid
import zlib
from typing import Any, Dict, List, Literal, Optional, Set, Tuple, Union

from jsonargparse import ActionConfigFile, ActionParser, ArgumentParser, Namespace
from jsonargparse.typing import (
    ClosedUnitInterval,
    Email,
    Path_fr,
    PositiveInt,
    SecretStr,
    restricted_number_type,
    restricted_string_type,
)

MOD = sys.modules[__name__]
META_KEYS = {"__default_config__", "__path__", "__orig__"}


# ------------------------------------------------------------------------------------------------ oracle
def snap(v, drop=()):
    """Typed structural snapshot. Namespace and dict are kept apart, list/tuple/set are kept apart, bool/int/float are
    kept apart; meta keys and the keys in `drop` (config-file action dests) are left out of namespaces."""
    if isinstance(v, Namespace):
        return ("ns", tuple(sorted((k, snap(x, drop)) for k, x in vars(v).items() if k not in META_KEYS and k not in drop)))
    if isinstance(v, dict):
        items = [(snap(k), snap(x)) for k, x in v.items() if not (isinstance(k, str) and k in META_KEYS)]
        return ("dict", tuple(sorted(items, key=repr)))
    if isinstance(v, list):
        return ("list", tuple(snap(x, drop) for x in v))
    if isinstance(v, tuple):
        return ("tuple", tuple(snap(x) for x in v))
    if isinstance(v, (set, frozenset)):
        return ("set", tuple(sorted((snap(x) for x in v), key=repr)))
    if v is None:
        return ("None",)
    if isinstance(v, enum.Enum):
        return ("enum", type(v).__name__, v.name)
    if type(v) in (bool, int, str):
        return (type(v).__name__, v)
    if type(v) is float:
        return ("float", repr(v + 0.0))  # -0.0 == 0.0
    if isinstance(v, str):
        return ("str:" + type(v).__name__, str.__str__(v))
    if isinstance(v, int) and not isinstance(v, bool):
        return ("int:" + type(v).__name__, int(v))
    if isinstance(v, float):
        return ("float:" + type(v).__name__, repr(float(v)))
    if hasattr(v, "relative") and hasattr(v, "absolute") and hasattr(v, "mode"):
        # jsonargparse Path objects: the path as given, where it points to, and the mode
        return ("path", type(v).__name__, str(v.relative), str(v.absolute), v.mode)
    if isinstance(v, SecretStr):
        return ("SecretStr", repr(v.get_secret_value()))
    if isinstance(v, type) or callable(v) and hasattr(v, "__qualname__"):
        return ("object", getattr(v, "__module__", "?") + "." + v.__qualname__)
    return (type(v).__module__ + "." + type(v).__name__, re.sub(r" at 0x[0-9a-fA-F]+", "", repr(v)))


def first_diff(a, b, path=""):
    """First position at which two snapshots differ: (path, kind, left, right) or None."""
    if a == b:
        return None
    if a[0] != b[0]:
        return (path, f"{a[0]}>{b[0]}", a, b)
    tag = a[0]
    if tag == "ns":
        da, db = dict(a[1]), dict(b[1])
        for k in sorted(set(da) | set(db)):
            if k not in db:
                return (f"{path}.{k}", f"{da[k][0]}>missing", da[k], None)
            if k not in da:
                return (f"{path}.{k}", f"missing>{db[k][0]}", None, db[k])
            d = first_diff(da[k], db[k], f"{path}.{k}")
            if d:
                return d
    if tag == "dict":
        da, db = dict(a[1]), dict(b[1])
        only_a = sorted((k for k in da if k not in db), key=repr)
        only_b = sorted((k for k in db if k not in da), key=repr)
        if only_a and only_b:
            return (f"{path}[{only_a[0][-1]!r}]", f"key:{only_a[0][0]}>{only_b[0][0]}", only_a[0], only_b[0])
        for k in sorted(set(da) | set(db), key=repr):
            if k not in db:
                # a key that disappeared: was it re-read as another type?
                other = [k2 for k2 in db if k2 not in da]
                if other:
                    return (f"{path}[{k[-1]!r}]", f"key:{k[0]}>{other[0][0]}", k, other[0])
                return (f"{path}[{k[-1]!r}]", f"{da[k][0]}>missing", da[k], None)
            if k not in da:
                return (f"{path}[{k[-1]!r}]", f"missing>{db[k][0]}", None, db[k])
            d = first_diff(da[k], db[k], f"{path}[{k[-1]!r}]")
            if d:
                return d
    if tag == "set":
        only_a = [x for x in a[1] if x not in b[1]]
        only_b = [x for x in b[1] if x not in a[1]]
        if only_a:
            return (path + "{}", f"{only_a[0][0]}>{only_b[0][0] if only_b else 'missing'}", only_a[0], only_b[0] if only_b else None)
        return (path + "{}", f"missing>{only_b[0][0]}", None, only_b[0])
    if tag in ("list", "tuple"):
        if len(a[1]) != len(b[1]):
            return (path, f"{tag}:len{len(a[1])}>len{len(b[1])}", a, b)
        for i, (x, y) in enumerate(zip(a[1], b[1])):
            d = first_diff(x, y, f"{path}[{i}]")
            if d:
                return d
    return (path, f"{tag}:value", a, b)


def leaf_label(s):
    """Short deterministic rendering of a snapshot leaf / an input for canonical keys."""
    if isinstance(s, tuple) and len(s) >= 2 and s[0].split(":")[0] in ("str", "int", "bool", "float", "enum", "path", "SecretStr"):
        v = s[2] if s[0] in ("enum", "path") else s[1]
        return short(v, raw=s[0].startswith("float"))
    if isinstance(s, tuple):
        return short(unsnap(s))
    return short(s)


def unsnap(s):
    tag = s[0]
    if tag in ("ns", "dict"):
        return {(k if isinstance(k, str) else unsnap(k)): unsnap(v) for k, v in s[1]}
    if tag in ("list", "tuple", "set"):
        return [unsnap(x) for x in s[1]]
    if tag == "None":
        return None
    return s[-1] if tag not in ("path",) else s[2]


def short(v, raw=False, limit=48):
    r = v if raw else repr(v)
    r = re.sub(r" at 0x[0-9a-fA-F]+", "", r.replace("\n", "\\n"))
    if len(r) > limit:
        r = r[: limit - 10] + "~" + format(zlib.crc32(r.encode("utf-8", "backslashreplace")) & 0xFFFFFFFF, "08x")
    return r


def strings_in(s, out=None):
    """All str-like leaves of a snapshot (str values, dict keys, enum names, path strings), in order."""
    out = [] if out is None else out
    tag = s[0]
    if tag == "ns":
        for _, v in s[1]:
            strings_in(v, out)
    elif tag == "dict":
        for k, v in s[1]:
            strings_in(k, out)
            strings_in(v, out)
    elif tag in ("list", "tuple", "set"):
        for x in s[1]:
            strings_in(x, out)
    elif tag.split(":")[0] == "str":
        out.append(("str", s[1]))
    elif tag == "enum":
        out.append(("enum", s[2]))
    elif tag == "path":
        out.append(("path", s[2]))
    elif tag.split(":")[0] == "float":
        out.append(("float", s[1]))
    return out


def has_none_in_container(s, inside=False):
    tag = s[0]
    if tag == "None":
        return inside
    if tag == "ns":
        return any(has_none_in_container(v, False) for _, v in s[1])
    if tag == "dict":
        return any(has_none_in_container(v, True) for _, v in s[1])
    if tag in ("list", "tuple", "set"):
        return any(has_none_in_container(x, True) for x in s[1])
    return False


def none_paths(s, path=""):
    """Namespace paths that hold None."""
    if s[0] == "None":
        return {path}
    if s[0] == "ns":
        out = set()
        for k, v in s[1]:
            out |= none_paths(v, f"{path}.{k}")
        return out
    return set()


# ------------------------------------------------------------------------------------------------ value sets
LONG = "x" * 70 + " y  z " + "w" * 30

# "looks like another type" strings (DESIGN.md section 3) plus the spellings probed while reading the resolvers
TRICKY = [
    "1e3", "._", ".5", "1_000", "010", "0x10", "1:30", "true", "True", "yes", "no", "on", "null", "~", "", " ", "-", "=", "nan", ".inf",
    "2020-01-01", "{a: 1}", "[1, 2]", "a: b", "*x", "&a",
    "1e+3", "1E3", "1e-3", "1_0e3", "1.", "1.5", "+1", "-.5", "+.5e+3", ".5e3", "0o10", "0b1", "1:30.5", "-1:30", "2020-01-01 10:00:00", "NaN", ".NaN",
    "Infinity", "-.inf", ".Inf", "123", "-7", "08", "1._", "-._", "._e+1", "0_", "None", "Null", "NULL", "FALSE", "y", "n", "off",
    "[", "{", "{}", "[]", "a:", "a: ", "- a", "? a", "#c", "a #b", "a# b", "!!int 3", "!x", "%x", "@x", "`x", "|", ">", "'", '"', "a'b", 'a"b',
    "\\", "\\n", "a\nb", "a\n", "\na", "a\n\nb", "\ta", " a", "a ", "a\tb", "\u00e9", "\x85", "a\x85b", "\u00a0", "\ufeff", "\x00", "\x7f", "\x1b",
    "\U0001F600", "\u2028", "a\u2029b", "<<", "---", "...", "--- a", ",", "a,b", "a, b", LONG, "key: [1, {a: b}]", "x\nz: 1\na: 2\n", "k:\n  z: 1", "\nz: 5", "'quoted'", '"quoted"',
]
TRICKY_CORE = ["1e3", "._", "null", "true", "123", "", "a: b", "[1, 2]", "2020-01-01", "on", "~", " ", "1.5", "x"]
TRICKY_MIN = ["1e3", "null", "123", "x"]


class Color(enum.Enum):
    red = 1
    on = 2
    null = 3
    true = 4
    A = 5


NumEnum = enum.Enum("NumEnum", {"1e3": 1, "12": 2, "ok": 3, "1.5": 4, "~": 5})
NumEnum.__module__ = __name__

NumLike = restricted_string_type("NumLikeD", r"^[0-9][0-9e.+_]*$")
Percent = restricted_number_type("PercentD", float, [(">=", 0.0), ("<=", 100.0)])

FILES = ["f.txt", "123", "1e3", "null", "true", "a b.txt", "1.5", "d/g.txt"]


def make_files():
    """Create the files the Path_fr values point to, in the current (temporary) directory."""
    os.makedirs("d", exist_ok=True)
    for n in FILES:
        with open(n, "w") as f:
            f.write("1\n")


@dataclasses.dataclass
class TS:
    name: str
    hint: Any
    vals: list  # inputs (python objects; most are json-able)
    core: list  # reduced set used when the type is nested
    canon: Any  # a normalised value of the type (used as a non-None default)
    depth: int = 0
    kind: str = "leaf"


def leaves(thorough):
    nan, inf = float("nan"), float("inf")
    out = [
        TS("str", str, TRICKY + [None, 1, 1.5, True, ["a"]], TRICKY_CORE, "dflt"),
        TS("int", int, [0, -1, 7, 10**20, -(2**63), "3", "0x10", "010", "1_000", "-0", "+5", "1:30", True, 3.0, "1e3", "x", "", None, "null", [1]], [7, -1, "010", 10**20], 5),
        TS("float", float, [0.5, 1, 0, -0.0, 1e-7, 1e16, 1e22, 1e300, 5e-324, 0.1, 1 / 3, 123456789.123456789, nan, inf, -inf, ".5", "1e3", "1E3", "1e+3", ".inf", "-.inf", ".nan", "1:30.5", "1_0.5", "3", "nan", "inf", "x", True, None, "null"],
           [0.5, 1, 1e-7, 1e16, nan, inf, "1e3"], 2.5),
        TS("bool", bool, [True, False, "true", "false", "yes", "no", "on", "True", "FALSE", 1, 0, "1", "x", None], [True, False, "yes"], True),
        TS("Literal", Literal["a", "1e3", "null", "on", 1, True, None], ["a", "1e3", "null", "on", 1, True, None, "1", "true", "b", 2, False, 1.0], ["a", "1e3", "null", 1, None], "a"),
        TS("Color", Color, ["red", "on", "null", "true", "A", Color.on, "blue", 1, None], ["red", "on", "null", Color.A], Color.red),
        TS("NumEnum", NumEnum, ["1e3", "12", "ok", "1.5", "~", NumEnum["12"], 12, 1000.0], ["1e3", "12", "ok"], NumEnum["ok"]),
        TS("PositiveInt", PositiveInt, [1, 7, "2", "010", 10**20, 0, -1, 1.5, 2.0, True, "x", None], [1, "2", 0], PositiveInt(3)),
        TS("ClosedUnitInterval", ClosedUnitInterval, [0, 1, 0.5, 1e-7, "1e-3", ".5", 5e-324, 1.5, -0.1, "x", True, float("nan")], [0.5, 1, 1e-7], ClosedUnitInterval(0.25)),
        TS("Percent", Percent, [0, 100, 99.9, 1e-7, "1e2", 100.1, "x"], [99.9, 1e-7], Percent(50.0)),
        TS("Path_fr", Path_fr, FILES + ["missing.txt", "", 123, None], ["f.txt", "123", "1e3", "null"], Path_fr("f.txt") if os.path.isfile("f.txt") else None),
        TS("Email", Email, ["a@b.c", "1e3@1e3.1e3", "x", 1], ["a@b.c"], Email("d@e.f")),
        TS("NumLike", NumLike, ["1e3", "123", "1.5", "1_000", "1e+3", "0", "010", "x", 123], ["1e3", "123", "1.5"], NumLike("0")),
        TS("timedelta", datetime.timedelta, ["1:00:00", "0:00:01", "2 days, 0:00:01.000005", "-2 days, 0:00:01", "1:00:00.000005", datetime.timedelta(hours=30, microseconds=7), "x", 5],
           ["1:00:00", datetime.timedelta(days=2, seconds=1)], datetime.timedelta(seconds=90)),
        TS("complex", complex, ["(1+2j)", "1j", "3", 3, 2.5, complex(0, 1), complex(1e22, -1e-7), complex(float("inf"), 0), "x", None], ["(1+2j)", 3], complex(1, 1)),
        TS("Decimal", decimal.Decimal, ["0.1", 0.1, "1", 1, "1e3", decimal.Decimal("0.5"), decimal.Decimal("0.1"), "123456789012345678901234567890", "x"], ["0.5", 1], decimal.Decimal("0.5")),
        TS("UUID", uuid.UUID, ["00000000-0000-0000-0000-000000000005", "12345678123456781234567812345678", uuid.UUID(int=7), "x", 5], ["00000000-0000-0000-0000-000000000005"], uuid.UUID(int=9)),
        TS("bytes", bytes, ["YWJj", "", "MTIz", "1e3=", b"\x00\xff", "x!", 5], ["YWJj", ""], b"abc"),
        TS("range", range, ["range(1, 3)", "range(5)", "range(1, 10, 2)", "range(0)", range(3, 1), "x", 5], ["range(1, 3)"], range(2)),
        TS("SecretStr", SecretStr, ["abc", "1e3", "null", "", SecretStr("x"), 5], ["abc", "1e3"], SecretStr("s")),
    ]
    return out


PICK = {"Optional[str]", "Optional[int]", "Optional[float]", "Optional[Path_fr]", "Optional[Color]", "Union[int,str]", "Union[str,int]", "Union[float,str]", "Union[str,float]",
        "Union[bool,int]", "Union[None,str]", "Union[str,int,float]", "Union[float,int,str]", "List[str]", "List[int]", "List[float]", "List[Path_fr]", "List[NumEnum]",
        "Dict[str,str]", "Dict[str,int]", "Dict[str,float]", "Dict[int,str]", "Tuple[str,...]", "Tuple[int,...]", "Tuple[str,int]", "Tuple[float,str]", "Tuple[str]", "Set[str]", "Set[int]",
        "List[Literal]", "Dict[str,Color]", "List[Decimal]", "List[timedelta]", "Optional[NumLike]", "List[SecretStr]", "Union[PositiveInt,str]", "Union[Path_fr,int]"}
FEW = ["str", "int", "float", "bool", "Literal", "Color", "NumEnum", "Path_fr", "Optional[str]", "Dict[str,str]", "List[str]", "Union[int,str]", "Union[str,int]", "Tuple[str,int]"]


def select(types, subset):
    """Named sub-grammars: all | d1 (depth <= 1) | pick (leaves + representative depth-1) | few."""
    if subset == "all":
        return list(types)
    if subset == "d1":
        return [t for t in types if t.depth <= 1]
    if subset == "pick":
        return [t for t in types if t.depth == 0 or t.name in PICK]
    if subset == "few":
        return [t for t in types if t.name in FEW]
    if subset == "tiny":
        return [t for t in types if t.name in FEW[:1] + FEW[2:3] + FEW[5:6] + FEW[7:10] + FEW[11:12]]
    raise ValueError(subset)


UNION_POOL = ["str", "int", "float", "bool", "Color", "None"]
UNION_VALS = ["1", "1.0", "1e3", "true", "null", "red", "on", "x", "", 1, 0, 1.0, 2.5, True, False, None, 10**20, float("nan"), "0x10", "010", ".5", "~", "123", "[1]", [1]]


def hashable(v):
    try:
        hash(v)
        return True
    except TypeError:
        return False


def uniq(vals):
    seen, out = set(), []
    for v in vals:
        k = (type(v).__name__, repr(v))
        if k not in seen:
            seen.add(k)
            out.append(v)
    return out


def wrap(kind, inner: List[TS], thorough, aux=None):
    """Apply a type constructor to inner types, composing the value sets."""
    ts = _wrap(kind, inner, thorough)
    if kind not in ("Optional", "Union") and any(x.canon is None for x in inner):
        ts.canon = None  # no normalised default can be built from a member type without one
    return ts


def _wrap(kind, inner: List[TS], thorough):
    t = inner[0]
    d = max(x.depth for x in inner) + 1
    core = t.core
    if kind == "Optional":
        return TS(f"Optional[{t.name}]", Optional[t.hint], uniq(t.vals + [None, "null", "~", "Null"]), uniq(t.core[:3] + [None, "null"]), t.canon, d, kind)
    if kind == "Union":
        hint = Union[tuple(x.hint for x in inner)]
        vals = UNION_VALS if d == 1 else uniq([v for x in inner for v in x.core] + ["1", 1, None, "null", "x"])
        cores = uniq([v for x in inner for v in x.core[:2]] + ["1", None])
        if any(x.name == "str" for x in inner):
            # an object whose serialisation is a string (enum member, timedelta, complex ...) cannot be told from that string in a
            # Union with str; whether that is covered by the statement is unclear, so such inputs are not generated (see report)
            vals = [v for v in vals if jsonable(v) or isinstance(v, (tuple, set, list, dict))]
            cores = [v for v in cores if jsonable(v) or isinstance(v, (tuple, set, list, dict))]
        return TS("Union[" + ",".join(x.name for x in inner) + "]", hint, vals, cores, inner[0].canon if inner[0].canon is not None else inner[1].canon, d, kind)
    if kind == "List":
        vals = [[]] + [[v] for v in core] + [list(core[:2]), list(core[:3]), None, "x", 5, {"a": 1}] + ([core[0]] if core else [])
        return TS(f"List[{t.name}]", List[t.hint], vals, [[], list(core[:2]), [core[-1]]], [t.canon], d, kind)
    if kind == "DictS":
        keys = TRICKY_CORE + ["a.b", "1_000", "0x10", ".inf", "a\nb", "\x85"] if d == 1 else TRICKY_MIN
        vals = [{}] + [{k: core[0]} for k in keys] + [{"k": v} for v in core[1:]] + [{"k": core[0], "1e3": core[-1], "j": core[0]}, None, [], "x"]
        return TS(f"Dict[str,{t.name}]", Dict[str, t.hint], vals, [{}, {"k": core[0]}, {"1e3": core[-1], "null": core[0]}], {"k": t.canon}, d, kind)
    if kind == "DictI":
        vals = [{}, {1: core[0]}, {"2": core[0], "-3": core[-1]}, {"010": core[0]}, {"0x10": core[0]}, {"1_0": core[0]}, {10**20: core[0]}, {True: core[0]}, {"x": core[0]}, {1.5: core[0]}, None]
        return TS(f"Dict[int,{t.name}]", Dict[int, t.hint], vals, [{1: core[0]}, {"2": core[-1]}], {1: t.canon}, d, kind)
    if kind == "Tuple1":
        vals = [[v] for v in core] + [(core[0],), [], [core[0], core[0]], None, "x"]
        return TS(f"Tuple[{t.name}]", Tuple[t.hint], vals, [[core[0]], (core[-1],)], (t.canon,), d, kind)
    if kind == "Tuple2":
        u = inner[1]
        vals = [[a, b] for a in core[:4] for b in u.core[:3]] + [(core[0], u.core[0]), [core[0]], [], None]
        return TS(f"Tuple[{t.name},{u.name}]", Tuple[t.hint, u.hint], vals, [[core[0], u.core[0]], (core[-1], u.core[-1])], (t.canon, u.canon), d, kind)
    if kind == "TupleE":
        vals = [[], [core[0]], list(core[:3]), tuple(core[:2]), list(core), None, "x", core[0]]
        return TS(f"Tuple[{t.name},...]", Tuple[t.hint, ...], vals, [[], list(core[:2])], (t.canon,), d, kind)
    if kind == "Set":
        hv = [v for v in core if hashable(v)]
        vals = [[], [hv[0]], list(hv[:3]), [hv[0], hv[0]], set(hv[:2]), [0, 8, 16] if t.name in ("int", "float") else list(hv[:2]), [8, 0] if t.name in ("int", "float") else [hv[-1]], None, "x"]
        canon = {t.canon} if hashable(t.canon) else None
        return TS(f"Set[{t.name}]", Set[t.hint], vals, [[], list(hv[:2])], canon, d, kind)
    raise ValueError(kind)


def make_types(thorough: bool, maxdepth: int):
    """G(maxdepth): list of TS in a fixed order."""
    L = leaves(thorough)
    byname = {t.name: t for t in L}
    none = TS("None", type(None), [None], [None], None)
    out = list(L)
    # ---- depth 1
    d1 = []
    for t in L:
        d1.append(wrap("Optional", [t], thorough))
    pool = [byname[n] if n != "None" else none for n in UNION_POOL]
    for a, b in itertools.permutations(pool, 2):
        d1.append(wrap("Union", [a, b], thorough))
    trip = [byname["str"], byname["int"], byname["float"], byname["bool"]] if not thorough else pool[:5]
    for combo in itertools.combinations(trip, 3):
        for perm in itertools.permutations(combo):
            d1.append(wrap("Union", list(perm), thorough))
    d1.append(wrap("Union", [byname["Path_fr"], byname["int"]], thorough))
    d1.append(wrap("Union", [byname["int"], byname["Path_fr"]], thorough))
    d1.append(wrap("Union", [byname["PositiveInt"], byname["str"]], thorough))
    d1.append(wrap("Union", [byname["NumLike"], byname["float"]], thorough))
    d1.append(wrap("Union", [byname["float"], byname["NumLike"]], thorough))
    for t in L:
        d1.append(wrap("List", [t], thorough))
        d1.append(wrap("DictS", [t], thorough))
        d1.append(wrap("TupleE", [t], thorough))
        d1.append(wrap("Set", [t], thorough))
    for n in ("str", "int", "float", "Color", "Path_fr"):
        d1.append(wrap("DictI", [byname[n]], thorough))
        d1.append(wrap("Tuple1", [byname[n]], thorough))
    for a, b in itertools.permutations([byname[n] for n in ("str", "int", "float", "bool", "Color", "Path_fr")], 2):
        d1.append(wrap("Tuple2", [a, b], thorough))
    out += d1
    if maxdepth < 2:
        return out
    # ---- depth 2 (and 3): every constructor over a representative (quick) / the full (thorough) set of depth-1 types
    def layer(prev, full):
        if full:
            inner = prev
        else:
            inner = [t for t in prev if t.name in PICK]
        nxt = []
        for t in inner:
            for kind in ("Optional", "List", "DictS", "TupleE", "Set"):
                if kind == "Optional" and t.kind in ("Optional",):
                    continue
                if kind == "Set" and not any(hashable(v) for v in t.core):
                    continue
                if kind == "Set" and t.kind in ("List", "DictS", "DictI", "Set"):
                    continue  # unhashable members
                nxt.append(wrap(kind, [t], thorough))
            if t.kind != "Union":
                nxt.append(wrap("Union", [t, byname["str"]], thorough))
                nxt.append(wrap("Union", [byname["str"], t], thorough))
                nxt.append(wrap("Union", [t, byname["int"]], thorough))
                nxt.append(wrap("Tuple2", [t, byname["str"]], thorough))
            if t.kind in ("List", "DictS", "Optional"):
                nxt.append(wrap("DictI", [t], thorough))
        return nxt

    d2 = layer(d1, thorough)
    out += d2
    if maxdepth >= 3:
        pick3 = {"List[Optional[str]]", "Dict[str,List[str]]", "Optional[List[str]]", "List[Dict[str,str]]", "Optional[Dict[str,int]]", "List[Union[int,str]]", "Dict[str,Union[str,float]]",
                 "Tuple[Optional[str],...]", "List[Tuple[str,int]]", "Optional[Tuple[str,int]]", "Dict[str,Optional[float]]", "List[List[float]]", "Dict[int,List[str]]",
                 "Optional[Set[str]]", "Tuple[List[str],str]", "Union[List[str],str]", "Union[str,List[int]]", "List[Optional[Path_fr]]", "Dict[str,List[NumEnum]]"}
        out += layer([t for t in d2 if t.name in pick3], True)
    return out


# ------------------------------------------------------------------------------------------------ parser shapes
SHAPES = ["flat", "positional", "group", "dataclass", "classgroup", "subclass", "subclassd", "inner", "subcmd1", "subcmd2"]
_counter = itertools.count()


class BaseD:
    pass


def _register(cls):
    cls.__module__ = __name__
    cls.__qualname__ = cls.__name__
    setattr(MOD, cls.__name__, cls)
    return cls


def _mutable(v):
    return isinstance(v, (list, dict, set))


def make_dataclass(hint, default):
    n = next(_counter)
    if _mutable(default):
        fld = dataclasses.field(default_factory=(lambda d=default: type(d)(d)))
    elif getattr(type(default), "__hash__", None) is None:  # e.g. Path objects: dataclasses refuse unhashable defaults
        fld = dataclasses.field(default_factory=(lambda d=default: d))
    else:
        fld = dataclasses.field(default=default)
    return _register(dataclasses.make_dataclass(f"DC{n}", [("a", hint, fld), ("z", int, dataclasses.field(default=0))]))


def make_class(hint, default, base=object):
    n = next(_counter)

    def __init__(self, a=default, z=0):
        self.a, self.z = a, z

    __init__.__annotations__ = {"a": hint, "z": int}
    return _register(type(f"K{n}", (base,), {"__init__": __init__}))


@dataclasses.dataclass
class Built:
    parser: Any
    shape: str
    wrap: Any  # leaf value -> nested dict for parse_object / a config file
    argv: Any  # leaf string -> argv list (None when the shape has no argv spelling)
    leaf: str  # dotted key of the leaf in the result
    drop: tuple = ("cfg",)
    sub_cfg_argv: Any = None
    pc_first: bool = False  # --print_config has to precede the arguments (subcommands at the top level)


def build(shape, ts: TS, default=None, mode="yaml", with_cfg=True, dump_header=None, env=False):
    """A parser of the given shape with an argument of type ts.hint (default `default`) at the leaf position."""
    kw = dict(exit_on_error=False, parser_mode=mode, prog="app")
    if env:
        kw.update(env_prefix="T", default_env=False)
    p = ArgumentParser(dump_header=dump_header, **kw)
    if with_cfg:
        p.add_argument("--cfg", action=ActionConfigFile)
    hint = ts.hint
    if shape == "flat":
        p.add_argument("--a", type=hint, default=default)
        p.add_argument("--z", type=int, default=0)
        return Built(p, shape, lambda v: {"a": v}, lambda s: [f"--a={s}"], "a")
    if shape == "positional":
        p.add_argument("a", type=hint)  # positionals take no default
        return Built(p, shape, lambda v: {"a": v}, lambda s: None if s.startswith("-") else [s], "a")
    if shape == "group":
        g = p.add_argument_group("G")
        g.add_argument("--g.a", type=hint, default=default)
        g.add_argument("--g.z", type=int, default=0)
        return Built(p, shape, lambda v: {"g": {"a": v}}, lambda s: [f"--g.a={s}"], "g.a")
    if shape == "dataclass":
        p.add_argument("--d", type=make_dataclass(hint, default))
        return Built(p, shape, lambda v: {"d": {"a": v}}, lambda s: [f"--d.a={s}"], "d.a")
    if shape == "classgroup":
        p.add_class_arguments(make_class(hint, default), "c")
        return Built(p, shape, lambda v: {"c": {"a": v}}, lambda s: [f"--c.a={s}"], "c.a")
    if shape in ("subclass", "subclassd"):
        cls = make_class(hint, default, BaseD)
        path = f"{__name__}.{cls.__name__}"
        if shape == "subclassd":
            p.add_argument("--s", type=BaseD, default={"class_path": path})
        else:
            p.add_argument("--s", type=BaseD)
        return Built(p, shape, lambda v: {"s": {"class_path": path, "init_args": {"a": v}}}, lambda s: [f"--s={path}", f"--s.a={s}"], "s.init_args.a")
    if shape == "inner":
        ip = ArgumentParser(**kw)
        ip.add_argument("--a", type=hint, default=default)
        ip.add_argument("--z", type=int, default=0)
        p.add_argument("--in", action=ActionParser(parser=ip))
        return Built(p, shape, lambda v: {"in": {"a": v}}, lambda s: [f"--in.a={s}"], "in.a")
    if shape == "subcmd1":
        sc = p.add_subcommands()
        x = ArgumentParser(**kw)
        x.add_argument("--cfg", action=ActionConfigFile)
        x.add_argument("--a", type=hint, default=default)
        y = ArgumentParser(**kw)
        y.add_argument("--b", type=int, default=1)
        sc.add_subcommand("x", x)
        sc.add_subcommand("y", y)
        return Built(p, shape, lambda v: {"x": {"a": v}}, lambda s: ["x", f"--a={s}"], "x.a", sub_cfg_argv=lambda f: ["x", f"--cfg={f}"])
    if shape == "subcmd2":
        sc = p.add_subcommands()
        y = ArgumentParser(**kw)
        y.add_argument("--b", type=int, default=1)
        x = ArgumentParser(**kw)
        x.add_argument("--top", type=Optional[str], default="1e1x")
        sc2 = x.add_subcommands()
        xx = ArgumentParser(**kw)
        xx.add_argument("--cfg", action=ActionConfigFile)
        xx.add_argument("--a", type=hint, default=default)
        xy = ArgumentParser(**kw)
        xy.add_argument("--c", type=str, default="c")
        sc2.add_subcommand("xy", xy)
        sc2.add_subcommand("xx", xx)
        sc.add_subcommand("y", y)
        sc.add_subcommand("x", x)
        return Built(p, shape, lambda v: {"x": {"xx": {"a": v}}}, lambda s: ["x", "xx", f"--a={s}"], "x.xx.a", sub_cfg_argv=lambda f: ["x", "xx", f"--cfg={f}"])
    raise ValueError(shape)


def jsonable(v):
    try:
        json.dumps(v)
        return not _has_nonstr_keys(v)
    except (TypeError, ValueError):
        return False


def _has_nonstr_keys(v):
    if isinstance(v, dict):
        return any(not isinstance(k, str) for k in v) or any(_has_nonstr_keys(x) for x in v.values())
    if isinstance(v, (list, tuple)):
        return any(_has_nonstr_keys(x) for x in v)
    return False


def render_arg(v):
    """Command-line / environment spelling of a json-able value."""
    return v if isinstance(v, str) else json.dumps(v)


def get_leaf(cfg, dotted):
    cur = cfg
    for part in dotted.split("."):
        if isinstance(cur, Namespace):
            cur = vars(cur).get(part)
        elif isinstance(cur, dict):
            cur = cur.get(part)
        else:
            return None
    return cur


# ------------------------------------------------------------------------------------------------ work distribution
class Recorder:
    """Stand-in for Harness inside a worker process: same check/nontrivial/sample interface; merged by `merge`."""

    def __init__(self):
        self.passed = 0
        self.failed = []  # (key, what, case) in order of occurrence
        self.fail_evals = 0
        self.sigs = set()
        self.samples = []
        self.counts = {}
        self.seen_keys = set()

    def check(self, ok, key, what="", case=None):
        if ok:
            self.passed += 1
        else:
            self.fail_evals += 1
            # class paths of the harness' own classes: the module prefix depends on how the harness was started
            key = re.sub(r"(__main__|bounded\.b01_roundtrip|bounded\.b10_fixedpoint|bounded\.gen_d)\.", "", key)
            if key not in self.seen_keys:
                self.seen_keys.add(key)
                self.failed.append((key, what, case))
        return ok

    def nontrivial(self, sig):
        self.sigs.add(sig if isinstance(sig, (str, int)) else repr(sig))

    def sample(self, obj):
        if len(self.samples) < 2:
            self.samples.append(obj)

    def count(self, name, n=1):
        self.counts[name] = self.counts.get(name, 0) + n


def merge(h, rec: Recorder, totals: dict):
    h.evaluations += rec.passed + rec.fail_evals - len(rec.failed)
    for key, what, case in rec.failed:
        h.check(False, key, what, case)
    for s in sorted(rec.sigs):
        h.nontrivial(s)
    for s in rec.samples:
        h.sample(s)
    for k, v in rec.counts.items():
        totals[k] = totals.get(k, 0) + v


def run_units(h, worker, units, procs=None):
    """Run worker(unit) -> Recorder for every unit (in worker processes, results merged in unit order)."""
    import multiprocessing

    totals = {}
    if os.environ.get("VERIF_PROCS"):
        procs = int(os.environ["VERIF_PROCS"])
    if os.environ.get("VERIF_D_STRIDE"):  # debugging aid: run every k-th unit only
        units = units[:: int(os.environ["VERIF_D_STRIDE"])]
    procs = procs or min(16, os.cpu_count() or 1)
    if procs <= 1 or len(units) <= 1:
        for u in units:
            merge(h, worker(u), totals)
        return totals
    ctx = multiprocessing.get_context("fork")
    with ctx.Pool(procs) as pool:
        for rec in pool.imap(worker, units, chunksize=1):
            merge(h, rec, totals)
    return totals
